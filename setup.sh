#!/bin/sh
# Build the fact extractor and warm the dependency cache (offline). Run once after a fresh restore.
set -e
DIR="$(cd "$(dirname "$0")" && pwd)"
export CARGO_NET_OFFLINE=true
cd "$DIR/driver" && cargo build --release --offline
cd "$DIR" && python3 analysis/facts.py >/dev/null
echo "setup ok"
