// E0 — fact extractor for the solstat static checks (see /verif/DESIGN.md section 2.1).
//
// A rustc_private driver used as RUSTC_WORKSPACE_WRAPPER: it compiles the workspace member
// exactly as rustc would, and in `after_expansion` dumps, for every body owner of the local
// crate, the MIR *as built* (type-checked, fully resolved, unoptimised) together with the
// ADT definitions the bodies mention (and everything reachable from them inside
// solang_parser), as one JSON file per (crate, crate type) under $SOLSTAT_FACTS_DIR.
//
// Zero crates.io dependencies: a tiny JSON writer is included.
#![feature(rustc_private)]

extern crate rustc_abi;
extern crate rustc_driver;
extern crate rustc_hir;
extern crate rustc_interface;
extern crate rustc_middle;
extern crate rustc_session;
extern crate rustc_span;

use std::collections::{BTreeMap, BTreeSet, VecDeque};
use std::fmt::Write as _;

use rustc_driver::Compilation;
use rustc_hir::def::DefKind;
use rustc_hir::def_id::{DefId, LocalDefId};
use rustc_middle::mir::{self, Body, Operand, Place, ProjectionElem, Rvalue, StatementKind, TerminatorKind};
use rustc_middle::ty::print::with_no_trimmed_paths;
use rustc_middle::ty::{self, Ty, TyCtxt};
use rustc_span::Span;

// ---------------------------------------------------------------- JSON

#[derive(Clone)]
enum J {
    Null,
    Bool(bool),
    Num(i128),
    Str(String),
    Arr(Vec<J>),
    Obj(Vec<(String, J)>),
}

fn s(x: impl Into<String>) -> J {
    J::Str(x.into())
}
fn n(x: impl TryInto<i128>) -> J {
    match x.try_into() {
        Ok(v) => J::Num(v),
        Err(_) => J::Null,
    }
}
fn obj(v: Vec<(&str, J)>) -> J {
    J::Obj(v.into_iter().map(|(k, v)| (k.to_string(), v)).collect())
}

fn esc(out: &mut String, x: &str) {
    out.push('"');
    for c in x.chars() {
        match c {
            '"' => out.push_str("\\\""),
            '\\' => out.push_str("\\\\"),
            '\n' => out.push_str("\\n"),
            '\r' => out.push_str("\\r"),
            '\t' => out.push_str("\\t"),
            c if (c as u32) < 0x20 => {
                let _ = write!(out, "\\u{:04x}", c as u32);
            }
            c => out.push(c),
        }
    }
    out.push('"');
}

fn ser(out: &mut String, j: &J) {
    match j {
        J::Null => out.push_str("null"),
        J::Bool(b) => out.push_str(if *b { "true" } else { "false" }),
        J::Num(v) => {
            let _ = write!(out, "{}", v);
        }
        J::Str(x) => esc(out, x),
        J::Arr(v) => {
            out.push('[');
            for (i, e) in v.iter().enumerate() {
                if i > 0 {
                    out.push(',');
                }
                ser(out, e);
            }
            out.push(']');
        }
        J::Obj(v) => {
            out.push('{');
            for (i, (k, e)) in v.iter().enumerate() {
                if i > 0 {
                    out.push(',');
                }
                esc(out, k);
                out.push(':');
                ser(out, e);
            }
            out.push('}');
        }
    }
}

// ---------------------------------------------------------------- extraction context

struct Cx<'tcx> {
    tcx: TyCtxt<'tcx>,
    adt_queue: VecDeque<DefId>,
    adt_seen: BTreeSet<String>,
}

fn path_str(tcx: TyCtxt<'_>, did: DefId) -> String {
    with_no_trimmed_paths!(tcx.def_path_str(did))
}

impl<'tcx> Cx<'tcx> {
    fn ty_str(&self, ty: Ty<'tcx>) -> String {
        with_no_trimmed_paths!(format!("{}", ty))
    }

    fn loc(&self, span: Span) -> J {
        let sm = self.tcx.sess.source_map();
        let exp = span.from_expansion();
        let sp = if exp { span.source_callsite() } else { span };
        let lo = sm.lookup_char_pos(sp.lo());
        let hi = sm.lookup_char_pos(sp.hi());
        let file = format!("{}", lo.file.name.prefer_local_unconditionally());
        obj(vec![
            ("file", s(file)),
            ("line", n(lo.line)),
            ("col", n(lo.col.0 + 1)),
            ("eline", n(hi.line)),
            ("exp", J::Bool(exp)),
        ])
    }

    // type tree; enqueues ADTs for the `adts` table
    fn ty_tree(&mut self, ty: Ty<'tcx>) -> J {
        match ty.kind() {
            ty::Adt(def, args) => {
                let p = path_str(self.tcx, def.did());
                self.adt_queue.push_back(def.did());
                let mut targs = vec![];
                for a in args.iter() {
                    if let Some(t) = a.as_type() {
                        targs.push(self.ty_tree(t));
                    }
                }
                obj(vec![("adt", s(p)), ("args", J::Arr(targs))])
            }
            ty::Ref(_, t, m) => obj(vec![("ref", self.ty_tree(*t)), ("mut", J::Bool(m.is_mut()))]),
            ty::RawPtr(t, m) => obj(vec![("ptr", self.ty_tree(*t)), ("mut", J::Bool(m.is_mut()))]),
            ty::Tuple(ts) => {
                let v: Vec<J> = ts.iter().map(|t| self.ty_tree(t)).collect();
                obj(vec![("tuple", J::Arr(v))])
            }
            ty::Slice(t) => obj(vec![("slice", self.ty_tree(*t))]),
            ty::Array(t, _) => obj(vec![("array", self.ty_tree(*t))]),
            ty::Bool | ty::Char | ty::Int(_) | ty::Uint(_) | ty::Float(_) | ty::Str | ty::Never => {
                obj(vec![("prim", s(self.ty_str(ty)))])
            }
            ty::Param(p) => obj(vec![("param", s(p.name.as_str()))]),
            _ => obj(vec![("other", s(self.ty_str(ty)))]),
        }
    }

    fn place(&mut self, body: &Body<'tcx>, p: &Place<'tcx>) -> J {
        let tcx = self.tcx;
        let mut pty = mir::PlaceTy::from_ty(body.local_decls[p.local].ty);
        let mut elems = vec![];
        for elem in p.projection.iter() {
            let e = match elem {
                ProjectionElem::Deref => s("deref"),
                ProjectionElem::Field(f, _) => {
                    let mut name = J::Null;
                    if let ty::Adt(def, _) = pty.ty.kind() {
                        let vidx = pty.variant_index.unwrap_or(rustc_abi::FIRST_VARIANT);
                        if def.is_enum() || def.is_struct() || def.is_union() {
                            if let Some(v) = def.variants().get(vidx) {
                                if let Some(fd) = v.fields.get(f) {
                                    name = s(fd.name.as_str());
                                }
                            }
                        }
                    }
                    obj(vec![("f", n(f.as_usize())), ("n", name)])
                }
                ProjectionElem::Downcast(sym, vidx) => {
                    let mut name = sym.map(|x| x.as_str().to_string());
                    if name.is_none() {
                        if let ty::Adt(def, _) = pty.ty.kind() {
                            name = Some(def.variant(vidx).name.as_str().to_string());
                        }
                    }
                    obj(vec![("dc", s(name.unwrap_or_default())), ("vi", n(vidx.as_usize()))])
                }
                ProjectionElem::Index(l) => obj(vec![("ix", n(l.as_usize()))]),
                ProjectionElem::ConstantIndex { offset, from_end, .. } => {
                    obj(vec![("ci", n(offset)), ("from_end", J::Bool(from_end))])
                }
                ProjectionElem::Subslice { from, to, from_end } => {
                    obj(vec![("sub", n(from)), ("to", n(to)), ("from_end", J::Bool(from_end))])
                }
                ProjectionElem::OpaqueCast(_) => s("opaque"),
                ProjectionElem::UnwrapUnsafeBinder(_) => s("unwrap_binder"),
            };
            elems.push(e);
            pty = pty.projection_ty(tcx, elem);
        }
        let tys = self.ty_str(pty.ty);
        obj(vec![("l", n(p.local.as_usize())), ("pr", J::Arr(elems)), ("ty", s(tys))])
    }

    fn fn_ref(&mut self, owner: DefId, did: DefId, args: ty::GenericArgsRef<'tcx>) -> J {
        let tcx = self.tcx;
        let mut v: Vec<(&str, J)> = vec![];
        v.push(("path", s(path_str(tcx, did))));
        v.push(("krate", s(tcx.crate_name(did.krate).as_str())));
        v.push(("local", J::Bool(did.is_local())));
        let gargs: Vec<J> = args.iter().map(|a| s(with_no_trimmed_paths!(format!("{}", a)))).collect();
        v.push(("gargs", J::Arr(gargs)));
        let dk = tcx.def_kind(did);
        v.push(("kind", s(format!("{:?}", dk))));
        if matches!(dk, DefKind::Fn | DefKind::AssocFn) {
            let sig = tcx.fn_sig(did).skip_binder();
            v.push(("unsafe", J::Bool(!sig.safety().is_safe())));
        }
        if matches!(dk, DefKind::AssocFn) {
            if let Some(tr) = tcx.trait_of_assoc(did) {
                v.push(("trait", s(path_str(tcx, tr))));
                if let Some(t0) = args.types().next() {
                    v.push(("self_ty", s(self.ty_str(t0))));
                }
            } else if let Some(imp) = tcx.impl_of_assoc(did) {
                let st = tcx.type_of(imp).instantiate_identity().skip_normalization();
                v.push(("impl_self", s(self.ty_str(st))));
            }
            v.push(("name", s(tcx.item_name(did).as_str())));
        }
        // resolution of trait methods to their impl
        if matches!(dk, DefKind::Fn | DefKind::AssocFn) {
            let has_params = args.iter().any(|a| {
                let st = with_no_trimmed_paths!(format!("{:?}", a));
                st.contains("/#") || st.contains("'?")
            });
            let _ = has_params;
            let env = ty::TypingEnv::post_analysis(tcx, owner);
            let res = std::panic::catch_unwind(std::panic::AssertUnwindSafe(|| {
                ty::Instance::try_resolve(tcx, env, did, args)
            }));
            if let Ok(Ok(Some(inst))) = res {
                let rd = inst.def_id();
                v.push(("resolved", s(path_str(tcx, rd))));
                v.push(("resolved_krate", s(tcx.crate_name(rd.krate).as_str())));
                v.push(("resolved_local", J::Bool(rd.is_local())));
                v.push(("resolved_kind", s(format!("{:?}", inst.def).split('(').next().unwrap_or("").to_string())));
            }
        }
        obj(v)
    }

    fn constant(&mut self, body: &Body<'tcx>, c: &mir::ConstOperand<'tcx>) -> J {
        let tcx = self.tcx;
        let ty = c.const_.ty();
        let mut v: Vec<(&str, J)> = vec![("k", s("const")), ("ty", s(self.ty_str(ty)))];
        let disp = with_no_trimmed_paths!(format!("{}", c.const_));
        v.push(("disp", s(disp)));
        match ty.kind() {
            ty::FnDef(did, args) => {
                let owner = body.source.def_id();
                v.push(("fn", self.fn_ref(owner, *did, args)));
            }
            _ => {}
        }
        // a reference to a static item: name the item
        if let mir::Const::Val(mir::ConstValue::Scalar(mir::interpret::Scalar::Ptr(ptr, _)), _) = c.const_ {
            if let Some(mir::interpret::GlobalAlloc::Static(sd)) = tcx.try_get_global_alloc(ptr.provenance.alloc_id()) {
                v.push(("static", s(path_str(tcx, sd))));
            }
        }
        let env = ty::TypingEnv::post_analysis(tcx, body.source.def_id());
        let is_scalar = matches!(ty.kind(), ty::Bool | ty::Char | ty::Int(_) | ty::Uint(_));
        if is_scalar {
            let r = std::panic::catch_unwind(std::panic::AssertUnwindSafe(|| c.const_.try_eval_scalar_int(tcx, env)));
            if let Ok(Some(si)) = r {
                let size = si.size();
                let bits = si.to_bits(size);
                let val: i128 = match ty.kind() {
                    ty::Int(_) => size.sign_extend(bits) as i128,
                    _ => bits as i128,
                };
                v.push(("int", J::Num(val)));
            }
        }
        // string literals: &'static str
        if let ty::Ref(_, inner, _) = ty.kind() {
            if inner.is_str() {
                if let mir::Const::Val(mir::ConstValue::Slice { alloc_id, meta }, _) = c.const_ {
                    let alloc = tcx.global_alloc(alloc_id).unwrap_memory();
                    let bytes = alloc.inner().inspect_with_uninit_and_ptr_outside_interpreter(0..(meta as usize));
                    v.push(("str", s(String::from_utf8_lossy(bytes).to_string())));
                }
            }
        }
        obj(v)
    }

    fn operand(&mut self, body: &Body<'tcx>, o: &Operand<'tcx>) -> J {
        match o {
            Operand::Copy(p) => obj(vec![("k", s("copy")), ("p", self.place(body, p))]),
            Operand::Move(p) => obj(vec![("k", s("move")), ("p", self.place(body, p))]),
            Operand::Constant(c) => self.constant(body, c),
            Operand::RuntimeChecks(rc) => obj(vec![("k", s("runtime_checks")), ("what", s(format!("{:?}", rc)))]),
        }
    }

    fn rvalue(&mut self, body: &Body<'tcx>, rv: &Rvalue<'tcx>) -> J {
        match rv {
            Rvalue::Use(o, _) => obj(vec![("k", s("use")), ("o", self.operand(body, o))]),
            Rvalue::Repeat(o, _) => obj(vec![("k", s("repeat")), ("o", self.operand(body, o))]),
            Rvalue::Ref(_, bk, p) => obj(vec![
                ("k", s("ref")),
                ("mut", J::Bool(matches!(bk, mir::BorrowKind::Mut { .. }))),
                ("fake", J::Bool(matches!(bk, mir::BorrowKind::Fake(_)))),
                ("p", self.place(body, p)),
            ]),
            Rvalue::ThreadLocalRef(d) => obj(vec![("k", s("tls")), ("path", s(path_str(self.tcx, *d)))]),
            Rvalue::RawPtr(_, p) => obj(vec![("k", s("rawptr")), ("p", self.place(body, p))]),
            Rvalue::Cast(ck, o, t) => obj(vec![
                ("k", s("cast")),
                ("ck", s(format!("{:?}", ck))),
                ("o", self.operand(body, o)),
                ("ty", s(self.ty_str(*t))),
            ]),
            Rvalue::BinaryOp(op, b) => obj(vec![
                ("k", s("bin")),
                ("op", s(format!("{:?}", op))),
                ("a", self.operand(body, &b.0)),
                ("b", self.operand(body, &b.1)),
            ]),
            Rvalue::UnaryOp(op, o) => obj(vec![("k", s("un")), ("op", s(format!("{:?}", op))), ("o", self.operand(body, o))]),
            Rvalue::Discriminant(p) => obj(vec![("k", s("discr")), ("p", self.place(body, p))]),
            Rvalue::Aggregate(ak, ops) => {
                let mut v: Vec<(&str, J)> = vec![("k", s("agg"))];
                match &**ak {
                    mir::AggregateKind::Array(_) => v.push(("ak", s("array"))),
                    mir::AggregateKind::Tuple => v.push(("ak", s("tuple"))),
                    mir::AggregateKind::Adt(did, vidx, _, _, _) => {
                        v.push(("ak", s("adt")));
                        v.push(("adt", s(path_str(self.tcx, *did))));
                        let def = self.tcx.adt_def(*did);
                        v.push(("variant", s(def.variant(*vidx).name.as_str())));
                        v.push(("vi", n(vidx.as_usize())));
                        self.adt_queue.push_back(*did);
                    }
                    mir::AggregateKind::Closure(did, _) => {
                        v.push(("ak", s("closure")));
                        v.push(("closure", s(path_str(self.tcx, *did))));
                    }
                    mir::AggregateKind::RawPtr(..) => v.push(("ak", s("rawptr"))),
                    _ => v.push(("ak", s("other"))),
                }
                let os: Vec<J> = ops.iter().map(|o| self.operand(body, o)).collect();
                v.push(("ops", J::Arr(os)));
                obj(v)
            }
            Rvalue::CopyForDeref(p) => obj(vec![("k", s("use")), ("o", obj(vec![("k", s("copy")), ("p", self.place(body, p))]))]),
            Rvalue::WrapUnsafeBinder(o, _) => obj(vec![("k", s("use")), ("o", self.operand(body, o))]),
        }
    }

    fn body(&mut self, def: LocalDefId, body: &Body<'tcx>) -> J {
        let tcx = self.tcx;
        let did = def.to_def_id();
        let mut v: Vec<(&str, J)> = vec![];
        v.push(("path", s(path_str(tcx, did))));
        let dk = tcx.def_kind(did);
        v.push(("kind", s(format!("{:?}", dk))));
        v.push(("span", self.loc(body.span)));
        v.push(("arg_count", n(body.arg_count)));
        if matches!(dk, DefKind::Fn | DefKind::AssocFn) {
            // the item's own generic parameters, in the order in which call sites list their arguments
            let ident = ty::GenericArgs::identity_for_item(tcx, did);
            let gs: Vec<J> = ident.iter().map(|a| s(with_no_trimmed_paths!(format!("{}", a)))).collect();
            v.push(("generics", J::Arr(gs)));
        }
        let derived = tcx.is_automatically_derived(did)
            || tcx.opt_parent(did).map(|p| tcx.is_automatically_derived(p)).unwrap_or(false);
        v.push(("derived", J::Bool(derived)));
        if matches!(dk, DefKind::Fn | DefKind::AssocFn) {
            let sig = tcx.fn_sig(did).skip_binder();
            v.push(("unsafe", J::Bool(!sig.safety().is_safe())));
            v.push(("public", J::Bool(tcx.visibility(did).is_public())));
        }
        if matches!(dk, DefKind::AssocFn) {
            if let Some(imp) = tcx.impl_of_assoc(did) {
                let st = tcx.type_of(imp).instantiate_identity().skip_normalization();
                v.push(("impl_self", s(self.ty_str(st))));
                if let Some(tr) = tcx.impl_opt_trait_ref(imp) {
                    let tr = tr.instantiate_identity().skip_normalization();
                    v.push(("impl_trait", s(path_str(tcx, tr.def_id))));
                }
            }
        }
        // locals
        let mut names: BTreeMap<usize, String> = BTreeMap::new();
        for vdi in body.var_debug_info.iter() {
            if let mir::VarDebugInfoContents::Place(p) = &vdi.value {
                if p.projection.is_empty() {
                    names.entry(p.local.as_usize()).or_insert_with(|| vdi.name.as_str().to_string());
                }
            }
        }
        let mut locals = vec![];
        for (l, d) in body.local_decls.iter_enumerated() {
            let tt = self.ty_tree(d.ty);
            locals.push(obj(vec![
                ("ty", s(self.ty_str(d.ty))),
                ("tt", tt),
                ("name", names.get(&l.as_usize()).map(|x| s(x.clone())).unwrap_or(J::Null)),
                ("user", J::Bool(d.is_user_variable())),
                ("mut", J::Bool(d.mutability.is_mut())),
            ]));
        }
        v.push(("locals", J::Arr(locals)));
        // blocks
        let mut blocks = vec![];
        for (_bb, data) in body.basic_blocks.iter_enumerated() {
            let mut stmts = vec![];
            for st in data.statements.iter() {
                match &st.kind {
                    StatementKind::Assign(b) => {
                        let (p, rv) = &**b;
                        stmts.push(obj(vec![
                            ("k", s("assign")),
                            ("p", self.place(body, p)),
                            ("rv", self.rvalue(body, rv)),
                            ("loc", self.loc(st.source_info.span)),
                        ]));
                    }
                    StatementKind::SetDiscriminant { place, variant_index } => {
                        stmts.push(obj(vec![
                            ("k", s("setdiscr")),
                            ("p", self.place(body, place)),
                            ("vi", n(variant_index.as_usize())),
                            ("loc", self.loc(st.source_info.span)),
                        ]));
                    }
                    StatementKind::Intrinsic(_) => {
                        stmts.push(obj(vec![("k", s("intrinsic")), ("loc", self.loc(st.source_info.span))]));
                    }
                    _ => {}
                }
            }
            let term = data.terminator();
            let tloc = self.loc(term.source_info.span);
            let t = match &term.kind {
                TerminatorKind::Goto { target } => obj(vec![("k", s("goto")), ("t", n(target.as_usize()))]),
                TerminatorKind::SwitchInt { discr, targets } => {
                    let mut ts = vec![];
                    for (val, bb) in targets.iter() {
                        ts.push(J::Arr(vec![n(val), n(bb.as_usize())]));
                    }
                    obj(vec![
                        ("k", s("switch")),
                        ("d", self.operand(body, discr)),
                        ("dty", s(self.ty_str(discr.ty(&body.local_decls, tcx)))),
                        ("ts", J::Arr(ts)),
                        ("else", n(targets.otherwise().as_usize())),
                    ])
                }
                TerminatorKind::Return => obj(vec![("k", s("return"))]),
                TerminatorKind::Unreachable => obj(vec![("k", s("unreachable"))]),
                TerminatorKind::UnwindResume => obj(vec![("k", s("resume"))]),
                TerminatorKind::UnwindTerminate(_) => obj(vec![("k", s("terminate"))]),
                TerminatorKind::Drop { place, target, .. } => {
                    obj(vec![("k", s("drop")), ("p", self.place(body, place)), ("t", n(target.as_usize()))])
                }
                TerminatorKind::Call { func, args, destination, target, unwind, fn_span, .. } => {
                    let a: Vec<J> = args.iter().map(|x| self.operand(body, &x.node)).collect();
                    let cleanup = match unwind {
                        mir::UnwindAction::Cleanup(bb) => n(bb.as_usize()),
                        _ => J::Null,
                    };
                    obj(vec![
                        ("k", s("call")),
                        ("f", self.operand(body, func)),
                        ("args", J::Arr(a)),
                        ("dest", self.place(body, destination)),
                        ("t", target.map(|t| n(t.as_usize())).unwrap_or(J::Null)),
                        ("cleanup", cleanup),
                        ("fn_loc", self.loc(*fn_span)),
                    ])
                }
                TerminatorKind::TailCall { func, args, .. } => {
                    let a: Vec<J> = args.iter().map(|x| self.operand(body, &x.node)).collect();
                    obj(vec![("k", s("tailcall")), ("f", self.operand(body, func)), ("args", J::Arr(a))])
                }
                TerminatorKind::Assert { cond, expected, msg, target, .. } => {
                    let (mk, mops): (String, Vec<J>) = match &**msg {
                        mir::AssertKind::BoundsCheck { len, index } => {
                            ("BoundsCheck".into(), vec![self.operand(body, len), self.operand(body, index)])
                        }
                        mir::AssertKind::Overflow(op, a, b) => {
                            (format!("Overflow:{:?}", op), vec![self.operand(body, a), self.operand(body, b)])
                        }
                        mir::AssertKind::OverflowNeg(a) => ("OverflowNeg".into(), vec![self.operand(body, a)]),
                        mir::AssertKind::DivisionByZero(a) => ("DivisionByZero".into(), vec![self.operand(body, a)]),
                        mir::AssertKind::RemainderByZero(a) => ("RemainderByZero".into(), vec![self.operand(body, a)]),
                        other => (format!("{:?}", other).split(|c| c == '(' || c == ' ').next().unwrap_or("").to_string(), vec![]),
                    };
                    obj(vec![
                        ("k", s("assert")),
                        ("cond", self.operand(body, cond)),
                        ("expected", J::Bool(*expected)),
                        ("msg", s(mk)),
                        ("mops", J::Arr(mops)),
                        ("t", n(target.as_usize())),
                    ])
                }
                TerminatorKind::FalseEdge { real_target, .. } => obj(vec![("k", s("goto")), ("t", n(real_target.as_usize()))]),
                TerminatorKind::FalseUnwind { real_target, .. } => obj(vec![("k", s("goto")), ("t", n(real_target.as_usize()))]),
                TerminatorKind::Yield { .. } => obj(vec![("k", s("yield"))]),
                TerminatorKind::CoroutineDrop => obj(vec![("k", s("coroutine_drop"))]),
                TerminatorKind::InlineAsm { .. } => obj(vec![("k", s("asm"))]),
            };
            blocks.push(obj(vec![
                ("stmts", J::Arr(stmts)),
                ("term", t),
                ("tloc", tloc),
                ("cleanup", J::Bool(data.is_cleanup)),
            ]));
        }
        v.push(("blocks", J::Arr(blocks)));
        obj(v)
    }

    fn drain_adts(&mut self) -> J {
        let tcx = self.tcx;
        let mut out = vec![];
        while let Some(did) = self.adt_queue.pop_front() {
            let p = path_str(tcx, did);
            if !self.adt_seen.insert(p.clone()) {
                continue;
            }
            let krate = tcx.crate_name(did.krate).as_str().to_string();
            let def = tcx.adt_def(did);
            let kind = if def.is_enum() {
                "enum"
            } else if def.is_struct() {
                "struct"
            } else {
                "union"
            };
            let deep = did.is_local() || krate == "solang_parser";
            let mut variants = vec![];
            {
                let ident_args = ty::GenericArgs::identity_for_item(tcx, did);
                for (vi, var) in def.variants().iter_enumerated() {
                    let mut fields = vec![];
                    if deep {
                        for fd in var.fields.iter() {
                            let fty = fd.ty(tcx, ident_args);
                            fields.push(obj(vec![("name", s(fd.name.as_str())), ("ty", self.ty_tree(fty)), ("tys", s(self.ty_str(fty)))]));
                        }
                    }
                    let discr = if def.is_enum() { n(def.discriminant_for_variant(tcx, vi).val) } else { J::Null };
                    variants.push(obj(vec![
                        ("name", s(var.name.as_str())),
                        ("vi", n(vi.as_usize())),
                        ("discr", discr),
                        ("fields", J::Arr(fields)),
                    ]));
                }
            }
            out.push(obj(vec![
                ("path", s(p)),
                ("krate", s(krate)),
                ("kind", s(kind)),
                ("deep", J::Bool(deep)),
                ("variants", J::Arr(variants)),
            ]));
        }
        J::Arr(out)
    }
}

// ---------------------------------------------------------------- driver

struct Cb {
    out_dir: Option<String>,
}

impl rustc_driver::Callbacks for Cb {
    fn after_expansion<'tcx>(&mut self, _c: &rustc_interface::interface::Compiler, tcx: TyCtxt<'tcx>) -> Compilation {
        let Some(dir) = self.out_dir.clone() else {
            return Compilation::Continue;
        };
        let krate = tcx.crate_name(rustc_hir::def_id::LOCAL_CRATE).as_str().to_string();
        let ctypes: Vec<String> = tcx.crate_types().iter().map(|c| format!("{:?}", c).to_lowercase()).collect();
        let ctype = ctypes.first().cloned().unwrap_or_else(|| "unknown".into());
        let mut cx = Cx { tcx, adt_queue: VecDeque::new(), adt_seen: BTreeSet::new() };
        let mut bodies = vec![];
        let mut statics = vec![];
        let owners: Vec<LocalDefId> = tcx.hir_body_owners().collect();
        let mut wanted: Vec<LocalDefId> = vec![];
        for def in owners {
            let did = def.to_def_id();
            let dk = tcx.def_kind(did);
            if let DefKind::Static { mutability, nested, .. } = dk {
                let ty = tcx.type_of(did).instantiate_identity().skip_normalization();
                let attrs = format!("{:?}", tcx.codegen_fn_attrs(did).flags);
                statics.push(obj(vec![
                    ("path", s(path_str(tcx, did))),
                    ("mut", J::Bool(mutability.is_mut())),
                    ("nested", J::Bool(nested)),
                    ("ty", s(cx.ty_str(ty))),
                    ("freeze", J::Bool(ty.is_freeze(tcx, ty::TypingEnv::post_analysis(tcx, did)))),
                    ("thread_local", J::Bool(attrs.contains("THREAD_LOCAL"))),
                    ("span", cx.loc(tcx.def_span(did))),
                ]));
            }
            if !matches!(dk, DefKind::Fn | DefKind::AssocFn | DefKind::Closure | DefKind::Static { .. } | DefKind::Const { .. } | DefKind::AssocConst { .. }) {
                continue;
            }
            wanted.push(def);
        }
        // copy every body before anything else is asked of the compiler: describing one body resolves callees in the post-analysis typing mode, which reveals
        // `impl Trait` return types, which borrow-checks their defining function, which takes (steals) that function's freshly built MIR
        let built: Vec<(LocalDefId, Body<'tcx>)> = wanted.iter().map(|d| (*d, tcx.mir_built(*d).borrow().clone())).collect();
        for (def, body) in built.iter() {
            bodies.push(cx.body(*def, body));
        }
        // make sure the parse tree root is always described
        let adts = cx.drain_adts();
        let args: Vec<J> = std::env::args().skip(1).map(s).collect();
        let top = obj(vec![
            ("crate", s(krate.clone())),
            ("crate_type", s(ctype.clone())),
            ("rustc_args", J::Arr(args)),
            ("bodies", J::Arr(bodies)),
            ("adts", adts),
            ("statics", J::Arr(statics)),
        ]);
        let mut out = String::new();
        ser(&mut out, &top);
        let path = format!("{}/{}-{}.json", dir, krate, ctype);
        let tmp = format!("{}.tmp{}", path, std::process::id());
        std::fs::write(&tmp, out).expect("write facts");
        std::fs::rename(&tmp, &path).expect("rename facts");
        Compilation::Continue
    }
}

fn main() {
    let mut args: Vec<String> = std::env::args().collect();
    // used as RUSTC_WORKSPACE_WRAPPER: argv[1] is the path of the real rustc
    if args.len() > 1 && (args[1].ends_with("rustc") || args[1].contains("/rustc")) {
        args.remove(1);
    }
    let out_dir = std::env::var("SOLSTAT_FACTS_DIR").ok();
    let mut cb = Cb { out_dir };
    let code = rustc_driver::catch_with_exit_code(|| rustc_driver::run_compiler(&args, &mut cb));
    std::process::exit(if code == std::process::ExitCode::SUCCESS { 0 } else { 1 });
}
