"""E0: normalisation of the MIR facts before any analysis, so that rules see one program shape for behaviourally identical code.

Two semantics-preserving CFG transformations on the JSON facts of one crate:

 1. iterator adaptors that take a closure (`any`, `all`, `for_each`, and `map` / `filter` / `filter_map` chains ending in `collect`) are rewritten into the
    explicit `loop { match next() { .. } }` form that a `for` loop has in MIR, with the closure bodies spliced in;
 2. calls to local functions that do not exist in the reference tree (specs/known_fns.json: the function inventory the rules are anchored on) are
    spliced into their callers (block-level inlining: parameters become assignments, `return` becomes an assignment to the destination and a goto),
    and the helper's own body is dropped once every call to it has been spliced.

Both are exact (modulo unwinding, which no rule looks at): nothing is approximated, so a defect hidden inside a new helper or closure is still seen, at
the place where it executes. Known functions and the closures of the reference tree (KNOWN_CLOSURE_USES) are left alone because rules name them.
"""
import copy, os, json, os, re

HERE = os.path.dirname(os.path.abspath(__file__))
KNOWN_FILE = os.path.join(os.path.dirname(HERE), "specs", "known_fns.json")

MAX_ROUNDS = 8
SYN = {"file": "<prep>", "line": 0, "col": 0, "eline": 0, "exp": False}


def load_known():
    try:
        d = json.load(open(KNOWN_FILE))
        global KNOWN_ORPAT
        KNOWN_ORPAT = set(d.get("or_pattern_fns", []))
        global KNOWN_MATCHVAL
        KNOWN_MATCHVAL = set(d.get("match_value_fns", []))
        global KNOWN_ARRAYLOOPS
        KNOWN_ARRAYLOOPS = set(d.get("array_loop_fns", []))
        global KNOWN_PHIJOIN
        KNOWN_PHIJOIN = set(d.get("phi_join_fns", []))
        global REF_SIGS, REF_ADTS
        REF_SIGS = d.get("signatures", {})
        REF_ADTS = d.get("adts", {})
        global PLAIN_COLLECTS, PLAIN_EXTENDS
        PLAIN_COLLECTS = set(d.get("plain_collects", []))
        PLAIN_EXTENDS = set(d.get("plain_extends", []))
        return set(d["functions"]) - set(d.get("dormant", [])), set(tuple(x) for x in d["closure_uses"])
    except Exception:
        return None, None


PLAIN_EXTENDS = set()  # functions of the reference tree that call Extend::extend (the rules read those as written)
PLAIN_COLLECTS = set()  # functions of the reference tree that call collect() directly on a closure-free iterator
KNOWN_PHIJOIN = set()  # functions of the reference tree in which a value chosen by a match / if is used by a small shared tail: left merged
KNOWN_ARRAYLOOPS = set()  # functions of the reference tree that loop over a literal array: left as they are
REF_ADTS = {}
REF_SIGS = {}  # crate type -> reference signatures (see recognise_renames)
KNOWN_MATCHVAL = set()  # likewise for matches whose arms bind out of different variants and meet again
KNOWN_ORPAT = set()  # functions of the reference tree that bind variables in or-patterns: their merged shape is what the rules were written against


# ------------------------------------------------------------------ JSON builders


def P(l, pr=None, ty=""):
    return {"l": l, "pr": list(pr or []), "ty": ty}


def mv(l, ty=""):
    return {"k": "move", "p": P(l, ty=ty)}


def cp(l, ty=""):
    return {"k": "copy", "p": P(l, ty=ty)}


def assign(place, rv, loc):
    return {"k": "assign", "p": place, "rv": rv, "loc": loc}


def use(o):
    return {"k": "use", "o": o}


def cbool(v):
    return {"k": "const", "ty": "bool", "int": 1 if v else 0, "disp": "true" if v else "false"}


def new_local(b, ty, name=None, tt=None):
    b["locals"].append({"ty": ty, "tt": tt or {"other": ty}, "name": name, "user": False, "mut": True})
    return len(b["locals"]) - 1


def new_block(b, stmts, term, loc):
    b["blocks"].append({"stmts": stmts, "term": term, "tloc": loc, "cleanup": False})
    return len(b["blocks"]) - 1


def goto(t):
    return {"k": "goto", "t": t}


def fn_operand(path, gargs=(), **extra):
    fn = {"path": path, "krate": "std", "local": False, "gargs": list(gargs), "kind": "AssocFn", "unsafe": False, "resolved": path,
          "resolved_krate": "std", "resolved_local": False, "resolved_kind": "Item", "name": path.rsplit("::", 1)[-1]}
    fn.update(extra)
    return {"k": "const", "ty": "fn {%s}" % path, "disp": path, "fn": fn}


def call(fn_op, args, dest, target, loc):
    return {"k": "call", "f": fn_op, "args": args, "dest": dest, "t": target, "cleanup": None, "fn_loc": loc}


# ------------------------------------------------------------------ remapping / splicing


def remap(x, loff, boff):
    """deep copy of a callee fragment with locals and block numbers shifted"""
    if isinstance(x, list):
        return [remap(v, loff, boff) for v in x]
    if not isinstance(x, dict):
        return x
    if "l" in x and "pr" in x:  # a place
        return {"l": x["l"] + loff, "pr": [({"ix": e["ix"] + loff} if isinstance(e, dict) and "ix" in e and isinstance(e["ix"], int) else copy.deepcopy(e)) for e in x["pr"]],
                "ty": x.get("ty", "")}
    out = {}
    k = x.get("k")
    for key, v in x.items():
        if key in ("t", "else", "cleanup") and isinstance(v, int) and not isinstance(v, bool) and k in ("goto", "switch", "drop", "call", "assert"):
            out[key] = v + boff
        elif key == "ts" and k == "switch":
            out[key] = [[val, bb + boff] for (val, bb) in v]
        else:
            out[key] = remap(v, loff, boff)
    return out


def splice(cb, gb, arg_rvalues, dest, target, loc):
    """append the callee's locals and blocks to the caller; returns (prologue statements, entry block).
    arg_rvalues: one rvalue per callee parameter; dest: caller place receiving the result; target: caller block to continue at (None = diverges)"""
    loff = len(cb["locals"])
    boff = len(cb["blocks"])
    for l in gb["locals"]:
        cb["locals"].append(copy.deepcopy(l))
    pro = []
    for k, rv in enumerate(arg_rvalues):
        pro.append(assign(P(loff + 1 + k, ty=gb["locals"][1 + k]["ty"]), rv, loc))
    for blk in gb["blocks"]:
        nb = remap(blk, loff, boff)
        t = nb["term"]
        if t["k"] == "return":
            nb["stmts"].append(assign(copy.deepcopy(dest), use(mv(loff, gb["locals"][0]["ty"])), nb["tloc"]))
            nb["term"] = goto(target) if target is not None else {"k": "unreachable"}
        cb["blocks"].append(nb)
    return pro, boff


# ------------------------------------------------------------------ adaptor desugaring

ITER = "std::iter::Iterator::"
STAGES = ("map", "filter", "filter_map", "inspect", "flat_map", "flatten")
SINKS = ("collect", "any", "all", "for_each", "extend", "find", "find_map", "last", "for", "fold")

COLLECTIONS = (
    ("std::vec::Vec<", "std::vec::Vec::<T>::new", "std::vec::Vec::<T, A>::push"),
    ("std::collections::BTreeSet<", "std::collections::BTreeSet::<T>::new", "std::collections::BTreeSet::<T, A>::insert"),
    ("std::collections::HashSet<", "std::collections::HashSet::<T>::new", "std::collections::HashSet::<T, S, A>::insert"),
)
MAP_COLLECTIONS = (
    ("std::collections::HashMap<", "std::collections::HashMap::<K, V>::new", "std::collections::HashMap::<K, V, S, A>::insert"),
    ("std::collections::BTreeMap<", "std::collections::BTreeMap::<K, V>::new", "std::collections::BTreeMap::<K, V, A>::insert"),
)


def collection_of(ty):
    """(type, constructor, adder, arity of the adder's payload) for a collection type that elements can be added to one by one"""
    for (pre, new_, ins) in COLLECTIONS:
        if ty.startswith(pre):
            return (ty, new_, ins, 1)
    for (pre, new_, ins) in MAP_COLLECTIONS:
        if ty.startswith(pre):
            return (ty, new_, ins, 2)
    if ty == "std::string::String":
        return (ty, "std::string::String::new", "std::string::String::push_str", 1)
    return None


def callee_of(t):
    f = t.get("f") or {}
    if f.get("k") == "const" and "fn" in f:
        return f["fn"]
    return None


def single_def(b, l):
    """the unique whole-local definition of l in the body: ('call', bb, term) | ('rv', bb, idx, rvalue) | None"""
    found = []
    for bi, blk in enumerate(b["blocks"]):
        if blk.get("cleanup"):
            continue
        for si, s in enumerate(blk["stmts"]):
            if s["k"] == "assign" and s["p"]["l"] == l and not s["p"]["pr"]:
                found.append(("rv", bi, si, s["rv"]))
        t = blk["term"]
        if t is not None and t["k"] == "call" and t["dest"]["l"] == l and not t["dest"]["pr"]:
            found.append(("call", bi, t))
    return found[0] if len(found) == 1 else None


def closure_of_operand(b, o, bodies):
    """closure body passed by this operand (a local assigned a closure aggregate)"""
    if o["k"] not in ("move", "copy") or o["p"]["pr"]:
        return None
    if "closure" not in (o["p"].get("ty") or b["locals"][o["p"]["l"]]["ty"]):
        return None
    d = single_def(b, o["p"]["l"])
    for _hop in range(4):  # (a closure bound to a name first: `let f = |x| ..; it.any(f)` hands over a copy)
        if d and d[0] == "rv" and d[3]["k"] == "use" and d[3]["o"]["k"] in ("move", "copy") and not d[3]["o"]["p"]["pr"]:
            d = single_def(b, d[3]["o"]["p"]["l"])
        else:
            break
    if d and d[0] == "rv" and d[3]["k"] == "agg" and d[3].get("ak") == "closure":
        return bodies.get(d[3]["closure"])
    return None


def env_rvalue(gb, closure_operand):
    ty = gb["locals"][1]["ty"]
    pl = copy.deepcopy(closure_operand["p"])
    if ty.startswith("&"):
        return {"k": "ref", "mut": ty.startswith("&mut"), "fake": False, "p": pl}
    return use({"k": "copy", "p": pl})


def literal_array_source(b, o):
    """operands of the array literal an iterator operand is created from ([a, b].into_iter() / .iter()), or None"""
    for _ in range(8):
        if o["k"] not in ("move", "copy") or o["p"]["pr"]:
            return None
        d = single_def(b, o["p"]["l"])
        if d is None:
            return None
        if d[0] == "rv":
            rv = d[3]
            if rv["k"] == "agg" and rv.get("ak") == "array":
                return rv["ops"]
            if rv["k"] == "use" and rv["o"]["k"] in ("move", "copy"):
                o = rv["o"]
                continue
            if rv["k"] == "ref" and not rv["p"]["pr"]:
                o = {"k": "copy", "p": rv["p"]}
                continue
            if rv["k"] == "cast" and "Unsize" in str(rv.get("ck", "")) and rv["o"]["k"] in ("move", "copy"):
                o = rv["o"]  # `&[T; N]` handed over as `&[T]`
                continue
            return None
        fn = callee_of(d[2])
        if fn is not None and fn["path"] in ("std::iter::IntoIterator::into_iter", "core::slice::<impl [T]>::iter") and d[2]["args"]:
            o = d[2]["args"][0]
            continue
        return None
    return None


def chain_sources(b, o, depth=0):
    """`a.chain(b).chain(c)` as the list of its plain sources [(operand, type, block of the chain call | None)], or None when `o` is not such a chain"""
    if depth > 6 or o["k"] not in ("move", "copy") or o["p"]["pr"]:
        return None
    d = single_def(b, o["p"]["l"])
    if d is None:
        return None
    if d[0] == "rv":
        rv = d[3]
        if rv["k"] == "use" and rv["o"]["k"] in ("move", "copy") and not rv["o"]["p"]["pr"]:
            return chain_sources(b, rv["o"], depth + 1)
        return None
    fn = callee_of(d[2])
    if fn is None or fn["path"] != ITER + "chain" or len(d[2]["args"]) != 2 or len(fn.get("gargs") or []) != 2:
        return None

    def plain(x, ty):
        """one side of a chain: a chain itself, or a value that is iterated as it is"""
        sub = chain_sources(b, x, depth + 1)
        if sub is not None:
            return sub
        if x["k"] not in ("move", "copy") or x["p"]["pr"]:
            return None
        dx = single_def(b, x["p"]["l"])
        if dx is not None and dx[0] == "call":
            fx = callee_of(dx[2])
            if fx is not None and fx["path"] == "std::iter::IntoIterator::into_iter" and len(dx[2]["args"]) == 1:
                inner_ty = (fx.get("gargs") or [""])[0]
                if inner_ty.startswith(("std::option::Option<", "std::vec::Vec<")):
                    return [(dx[2]["args"][0], inner_ty, dx[1])]
            if fx is not None and fx["path"].startswith(ITER) and fx["path"][len(ITER):] in STAGES + ("chain", "rev", "skip", "take", "enumerate", "zip", "peekable"):
                return None  # a side with stages of its own
        if ty.startswith(("std::option::Option<", "std::vec::Vec<", "std::option::IntoIter<", "std::vec::IntoIter<", "std::slice::Iter<", "core::slice::Iter<")):
            return [(x, ty, None)]
        return None
    left = plain(d[2]["args"][0], fn["gargs"][0])
    right = plain(d[2]["args"][1], fn["gargs"][1])
    if left is None or right is None:
        return None
    return left + right + [(None, None, d[1])]


def stage_fn(b, o, bodies):
    """what a stage / sink argument denotes: ('closure', body, operand) | ('fn', fn operand, callee body or None) | None"""
    g = closure_of_operand(b, o, bodies)
    if g is not None:
        return ("closure", g, o)
    r = resolve_fn_value(b, o) if o["k"] in ("move", "copy", "const") else None
    if r is not None and "fn" in r:
        fnrec = r["fn"]
        gb = bodies.get(fnrec.get("resolved") or "") or bodies.get(fnrec["path"])
        return ("fn", r, gb)
    return None


def fn_ret_ty(sf):
    if sf[0] == "closure":
        return sf[1]["locals"][0]["ty"]
    if sf[2] is not None:
        return sf[2]["locals"][0]["ty"]
    m = sf[1].get("ty", "")
    return m.split("->")[-1].split("{")[0].strip() if "->" in m else "?"


def fn_param_ty(sf, k):
    """type of the k-th declared parameter (0-based, not counting a closure's environment)"""
    if sf[0] == "closure":
        ls = sf[1]["locals"]
        return ls[2 + k]["ty"] if len(ls) > 2 + k else "?"
    if sf[2] is not None:
        ls = sf[2]["locals"]
        return ls[1 + k]["ty"] if len(ls) > 1 + k else "?"
    return "?"


ADAPTOR_TYPES = ("std::iter::Map<", "std::iter::Filter<", "std::iter::FilterMap<", "std::iter::FlatMap<", "std::iter::Flatten<", "std::iter::Cloned<",
                 "std::iter::Copied<", "std::iter::Enumerate<", "std::iter::Rev<", "std::iter::Chain<", "std::iter::Skip<", "std::iter::Take<")


def chain_of(b, operand, bodies):
    """walk back from the receiver of a sink through map / filter / .. calls: ([(stage, function, call block, fn record)], source operand)"""
    stages = []
    o = operand
    seen = 0
    while seen < 10:
        seen += 1
        if o["k"] not in ("move", "copy") or o["p"]["pr"]:
            break
        d = single_def(b, o["p"]["l"])
        if d is None:
            break
        if d[0] == "rv":
            rv = d[3]
            if rv["k"] == "use" and rv["o"]["k"] in ("move", "copy") and not rv["o"]["p"]["pr"]:
                o = rv["o"]
                continue
            break
        fn = callee_of(d[2])
        if fn is not None and fn["path"] == "std::iter::IntoIterator::into_iter" and len(d[2]["args"]) == 1 and (fn.get("gargs") or [""])[0].startswith(ADAPTOR_TYPES):
            o = d[2]["args"][0]  # an iterator is its own IntoIter
            continue
        if fn is None or not fn["path"].startswith(ITER) or fn["path"][len(ITER):] not in STAGES:
            break
        name = fn["path"][len(ITER):]
        if name == "flatten":
            if len(d[2]["args"]) != 1:
                break
            stages.append((name, None, d[1], fn))
            o = d[2]["args"][0]
            continue
        if len(d[2]["args"]) != 2:
            break
        sf = stage_fn(b, d[2]["args"][1], bodies)
        if sf is None:
            return None
        stages.append((name, sf, d[1], fn))
        o = d[2]["args"][0]
    stages.reverse()
    return stages, o


def elem_ty_of_iter(ity):
    """element type of the std iterators whose type says it"""
    ity = (ity or "").strip()
    for head, by_ref in (("std::vec::IntoIter<", False), ("std::array::IntoIter<", False), ("std::option::IntoIter<", False), ("std::slice::Iter<", True),
                         ("core::slice::Iter<", True), ("std::collections::hash_set::IntoIter<", False), ("std::collections::btree_set::IntoIter<", False)):
        if ity.startswith(head):
            inner = ity[len(head):-1]
            if by_ref:
                inner = re.sub(r"^'\w+,\s*", "", inner)
            a = _first_arg(inner)
            return ("&" + a) if by_ref else a
    return None


def for_loop_shape(b, H):
    """block H ends in `next(&mut it)` and is the head of a plain loop: (H, switch block, Some block, exhausted target, body blocks) or None"""
    t = b["blocks"][H]["term"]
    if t.get("t") is None:
        return None
    sw = t["t"]
    st = b["blocks"][sw]["term"]
    if st is None or st["k"] != "switch":
        return None
    tgt = dict((v, bb) for (v, bb) in st["ts"])
    if 0 not in tgt or 1 not in tgt:
        return None
    exhausted, some = tgt[0], tgt[1]
    sb = b["blocks"][some]
    if not sb["stmts"] or sb["stmts"][0]["k"] != "assign" or sb["stmts"][0]["rv"]["k"] != "use" or sb["stmts"][0]["rv"]["o"]["k"] not in ("move", "copy") \
            or not any(isinstance(e, dict) and e.get("dc") == "Some" for e in sb["stmts"][0]["rv"]["o"]["p"]["pr"]) \
            or sb["stmts"][0]["rv"]["o"]["p"]["l"] != t["dest"]["l"]:
        return None
    # H must contain nothing but the borrow of the iterator (it is entered again for every element)
    if any(st_["k"] == "assign" and st_["rv"]["k"] != "ref" for st_ in b["blocks"][H]["stmts"]):
        return None
    dom = set(dominated(b, H))  # (an enclosing loop leads back to H as well: only what H dominates belongs to this loop)
    fwd, work = set(), [some]
    while work:
        x = work.pop()
        if x in fwd or x == H or x not in dom or x >= len(b["blocks"]) or b["blocks"][x].get("cleanup") or b["blocks"][x]["term"] is None:
            continue
        fwd.add(x)
        work += succs(b["blocks"][x])
    body = [x for x in fwd if H in succs(b["blocks"][x])]
    if not body:
        return None  # not a loop
    # every block from which H can be reached again
    back, work = set(), list(body)
    preds = {}
    for x in fwd:
        for y in succs(b["blocks"][x]):
            preds.setdefault(y, []).append(x)
    while work:
        x = work.pop()
        if x in back:
            continue
        back.add(x)
        work += [p_ for p_ in preds.get(x, []) if p_ in fwd]
    return (H, sw, some, exhausted, sorted(back | {some}))


def desugar_body(b, bodies, known_uses, log):
    """rewrite the closure-taking adaptor sinks of one body; returns set of closure paths that were spliced"""
    used = set()
    changed = True
    rounds = 0
    while changed and rounds < 30:
        changed = False
        rounds += 1
        for bi, blk in enumerate(b["blocks"]):
            t = blk["term"]
            if t is None or t["k"] != "call" or blk.get("cleanup") or t.get("t") is None:
                continue
            fn = callee_of(t)
            if fn is None:
                continue
            if fn["path"].startswith(ITER):
                sink = fn["path"][len(ITER):]
            elif fn["path"] == "std::iter::Extend::extend":
                sink = "extend"
            else:
                continue
            for_loop = None
            if sink == "next" and t["args"]:
                for_loop = for_loop_shape(b, bi)
                if for_loop is None:
                    continue
                sink = "for"
            if sink not in SINKS or not t["args"]:
                continue
            loc = blk["tloc"]
            recv = t["args"][1] if sink == "extend" else t["args"][0]
            by_ref = sink in ("any", "all", "find", "find_map", "for")  # take &mut self
            src = recv
            if by_ref:
                d = single_def(b, recv["p"]["l"]) if recv["k"] in ("move", "copy") and not recv["p"]["pr"] else None
                if d and d[0] == "rv" and d[3]["k"] == "ref" and d[3]["p"]["pr"] == ["deref"]:
                    # `&mut *r` with `r = &mut it` (the way a `for` loop borrows its iterator)
                    d = single_def(b, d[3]["p"]["l"])
                if not (d and d[0] == "rv" and d[3]["k"] == "ref" and not d[3]["p"]["pr"]):
                    continue
                # the iterator is borrowed, not consumed: if anything else also advances or reads it (a second any() on the same iterator, a
                # later next()), what this call sees depends on that - such code is left as it is (and fails closed in the rules)
                itl = d[3]["p"]["l"]
                borrows = 0
                for blk2 in b["blocks"]:
                    if blk2.get("cleanup"):
                        continue
                    for st2 in blk2["stmts"]:
                        if st2["k"] == "assign" and st2["rv"]["k"] in ("ref", "use"):
                            acc2 = set()
                            locals_in(st2["rv"], acc2)
                            if itl in acc2:
                                borrows += 1
                    t2 = blk2["term"]
                    if t2 is not None and t2["k"] == "call":
                        acc2 = set()
                        locals_in(t2["args"], acc2)
                        if itl in acc2:
                            borrows += 1
                if borrows != 1:
                    continue
                src = {"k": "move", "p": copy.deepcopy(d[3]["p"])}
            if src["k"] not in ("move", "copy"):
                continue
            ch = chain_of(b, src, bodies)
            if ch is None:
                continue
            stages, source = ch
            if sink == "for" and not stages:
                continue
            sink_f = None
            if sink in ("any", "all", "for_each", "find", "find_map", "fold"):
                if len(t["args"]) != (3 if sink == "fold" else 2):
                    continue
                sink_f = stage_fn(b, t["args"][-1], bodies)
                if sink_f is None:
                    continue
            key_uses = [(b["path"], s_[0]) for s_ in stages] + ([(b["path"], sink)] if sink_f is not None else [])
            if known_uses is not None and any(k in known_uses for k in key_uses):
                continue
            if sink == "collect" and not stages and b["path"] in PLAIN_COLLECTS:
                continue
            if sink == "extend" and not stages and b["path"] in PLAIN_EXTENDS:
                continue
            # the collection that receives the elements
            coll = None
            acc_ref = None
            if sink == "collect":
                dty = t["dest"].get("ty") or b["locals"][t["dest"]["l"]]["ty"]
                coll = collection_of(dty)
                if coll is None:
                    continue
            elif sink == "extend":
                acc_ref = t["args"][0]
                aty = (acc_ref.get("p") or {}).get("ty") or ""
                aty = aty[len("&mut "):] if aty.startswith("&mut ") else aty
                coll = collection_of(aty)
                sty = (source.get("p") or {}).get("ty") or (b["locals"][source["p"]["l"]]["ty"] if source["k"] in ("move", "copy") and not source["p"]["pr"] else "")
                if coll is None or acc_ref["k"] not in ("move", "copy"):
                    continue
                if not stages and coll[0].startswith("std::vec::Vec<") and sty.startswith("std::vec::Vec<"):
                    # v.extend(w) with w a Vec: the same as v.append(&mut w)
                    wl = new_local(b, sty)
                    wr = new_local(b, "&mut " + sty)
                    blk["stmts"].append(assign(P(wl, ty=sty), use(copy.deepcopy(source)), loc))
                    blk["stmts"].append(assign(P(wr), {"k": "ref", "mut": True, "fake": False, "p": P(wl, ty=sty)}, loc))
                    blk["term"] = call(fn_operand("std::vec::Vec::<T, A>::append", []), [copy.deepcopy(acc_ref), mv(wr)], copy.deepcopy(t["dest"]), t["t"], loc)
                    log.append("%s: extend(vec) written as append" % b["path"])
                    changed = True
                    break
                if not stages and not (sty.startswith(("std::collections::", "std::vec::", "std::iter::", "std::slice::", "core::slice::", "std::option::")) or "Iter" in sty):
                    continue
            # source iterator type
            if stages:
                it_ty = stages[0][3]["gargs"][0] if stages[0][3].get("gargs") else ""
            elif sink == "extend":
                it_ty = (source.get("p") or {}).get("ty") or ""
                if it_ty.startswith("std::vec::Vec<"):
                    it_ty = "std::vec::IntoIter<" + it_ty[len("std::vec::Vec<"):]
            else:
                it_ty = fn["gargs"][0] if fn.get("gargs") else ""
            # ---- build the loop
            cont = t["t"]
            dest = t["dest"]
            it_l = new_local(b, it_ty, "iter")
            blk["stmts"].append(assign(P(it_l, ty=it_ty), use(copy.deepcopy(source)), loc))
            acc_l = None
            if sink == "collect":
                acc_l = new_local(b, coll[0])

            def open_loop(it_local, ity, exhausted_to):
                """head / switch / some blocks of `loop { match next(&mut it) { None => goto exhausted_to, Some(e) => .. } }`; returns (head, some, option local)"""
                opt_l = new_local(b, "std::option::Option<?>")
                ref_l = new_local(b, "&mut " + ity)
                d_l = new_local(b, "isize")
                head = new_block(b, [], None, loc)
                sw = new_block(b, [], None, loc)
                unreach = new_block(b, [], {"k": "unreachable"}, loc)
                some = new_block(b, [], None, loc)
                b["blocks"][head]["stmts"] = [assign(P(ref_l), {"k": "ref", "mut": True, "fake": False, "p": P(it_local, ty=ity)}, loc)]
                b["blocks"][head]["term"] = call(fn_operand(ITER + "next", [ity], trait="std::iter::Iterator", self_ty=ity), [mv(ref_l)], P(opt_l), sw, loc)
                b["blocks"][sw]["stmts"] = [assign(P(d_l), {"k": "discr", "p": P(opt_l, ty="std::option::Option<?>")}, loc)]
                b["blocks"][sw]["term"] = {"k": "switch", "d": mv(d_l), "dty": "isize", "ts": [[0, exhausted_to], [1, some]], "else": unreach}
                return head, some, opt_l

            none = new_block(b, [], None, loc)
            firstf = stages[0][1] if stages and stages[0][1] is not None else sink_f
            first_param_ty = fn_param_ty(firstf, 1 if (sink == "fold" and firstf is sink_f) else 0) if firstf is not None else "?"
            if sink == "fold" and t["dest"]["pr"]:
                continue
            by_ref_first = (stages and stages[0][0] in ("filter", "inspect")) or (not stages and sink == "find")
            ety0 = first_param_ty[1:].lstrip() if by_ref_first and first_param_ty.startswith("&") else first_param_ty
            if stages and stages[0][1] is None:
                ety0 = elem_ty_of_iter(it_ty) or "?"  # (flatten first: what comes out of the source is not what the first closure takes)
            # a literal array as the source (`[a, b].into_iter().any(f)`): one copy of the element pipeline per element instead of a loop
            literal = literal_array_source(b, source) if sink != "for" else None
            if literal is not None and len(literal) > (32 if sink in ("find", "find_map", "any", "all") else 6):
                literal = None  # (a lookup in a table of names is written out row by row: it is the `match` it replaces)
            chained = chain_sources(b, source) if sink != "for" else None
            if chained is None and sink == "extend" and not stages:
                sty_ = (source.get("p") or {}).get("ty") or (b["locals"][source["p"]["l"]]["ty"] if source["k"] in ("move", "copy") and not source["p"]["pr"] else "")
                if sty_.startswith("std::option::Option<"):
                    chained = [(source, sty_, None)]  # `set.extend(opt)`: the payload, if there is one
            starts = []
            if chained:
                # one source after the other, each feeding its own copy of the element pipeline
                blk["stmts"].pop()  # (the chain adaptor itself is not iterated)
                nxt_entry = none
                for (op_, ty_, cb_) in reversed(chained):
                    if op_ is None:
                        continue
                    if ty_.startswith("std::option::Option<") or ty_.startswith("std::option::IntoIter<"):
                        oty = "std::option::Option<" + ty_[ty_.index("<") + 1:]
                        o_l = new_local(b, oty)
                        d_l = new_local(b, "isize")
                        e0 = new_local(b, ety0)
                        some_ = new_block(b, [assign(P(e0, ty=ety0), use({"k": "move", "p": P(o_l, [{"dc": "Some"}, {"f": 0, "n": "0"}], ety0)}), loc)], None, loc)
                        un_ = new_block(b, [], {"k": "unreachable"}, loc)
                        ent_ = new_block(b, [assign(P(o_l, ty=oty), use(copy.deepcopy(op_)), loc), assign(P(d_l), {"k": "discr", "p": P(o_l, ty=oty)}, loc)],
                                         {"k": "switch", "d": mv(d_l), "dty": "isize", "ts": [[0, nxt_entry], [1, some_]], "else": un_}, loc)
                        starts.append((some_, e0, nxt_entry))
                    else:
                        ity_ = ("std::vec::IntoIter<" + ty_[len("std::vec::Vec<"):]) if ty_.startswith("std::vec::Vec<") else ty_
                        it_k = new_local(b, ity_, "iter")
                        head_, some_, opt_ = open_loop(it_k, ity_, nxt_entry)
                        e0 = new_local(b, ety0)
                        b["blocks"][some_]["stmts"].append(assign(P(e0, ty=ety0), use({"k": "move", "p": P(opt_, [{"dc": "Some"}, {"f": 0, "n": "0"}], ety0)}), loc))
                        ent_ = new_block(b, [assign(P(it_k, ty=ity_), use(copy.deepcopy(op_)), loc)], goto(head_), loc)
                        starts.append((some_, e0, head_))
                    nxt_entry = ent_
                starts.reverse()
                first_bb = nxt_entry
            elif literal is None:
                head, some, opt_l = open_loop(it_l, it_ty, none)
                e0 = new_local(b, ety0)
                b["blocks"][some]["stmts"].append(assign(P(e0, ty=ety0), use({"k": "move", "p": P(opt_l, [{"dc": "Some"}, {"f": 0, "n": "0"}], ety0)}), loc))
                starts.append((some, e0, head))
                first_bb = head
            else:
                bbs = [new_block(b, [], None, loc) for _ in literal]
                for k_, op_ in enumerate(literal):
                    e0 = new_local(b, ety0)
                    b["blocks"][bbs[k_]]["stmts"].append(assign(P(e0, ty=ety0), use(copy.deepcopy(op_)), loc))
                    starts.append((bbs[k_], e0, bbs[k_ + 1] if k_ + 1 < len(bbs) else none))
                first_bb = bbs[0] if bbs else none
            if sink == "collect":
                blk["term"] = call(fn_operand(coll[1], []), [], P(acc_l, ty=coll[0]), first_bb, loc)
            elif sink == "for":
                # the source iterator is set up once, where the chain's iterator used to be created: in the block that enters the loop
                pass
            else:
                if sink == "last":
                    blk["stmts"].append(assign(copy.deepcopy(dest), adt_agg("std::option::Option", "None", 0, []), loc))
                if sink == "fold":
                    blk["stmts"].append(assign(copy.deepcopy(dest), use(copy.deepcopy(t["args"][1])), loc))
                blk["term"] = goto(first_bb)

            def run_fn(cur_bb, sf, arg_rvs, res_ty):
                """apply a closure (spliced) or a function item (called) at the end of cur_bb; returns (result local, continuation block)"""
                res = new_local(b, res_ty)
                after = new_block(b, [], None, loc)
                if sf[0] == "closure":
                    g, cl_op = sf[1], sf[2]
                    loff_, boff_ = len(b["locals"]), len(b["blocks"])
                    pro, entry = splice(b, g, [env_rvalue(g, cl_op)] + arg_rvs, P(res, ty=res_ty), after, loc)
                    instantiate_spliced_closure(b, cl_op, loff_, boff_, bodies)
                    b["blocks"][cur_bb]["stmts"] += pro
                    b["blocks"][cur_bb]["term"] = goto(entry)
                    used.add(g["path"])
                else:
                    ops = []
                    for rv in arg_rvs:
                        al = new_local(b, "?")
                        b["blocks"][cur_bb]["stmts"].append(assign(P(al), rv, loc))
                        ops.append(mv(al))
                    b["blocks"][cur_bb]["term"] = call(copy.deepcopy(sf[1]), ops, P(res, ty=res_ty), after, loc)
                return res, after

            def ref_of(cur_bb, l, ty):
                r_l = new_local(b, "&" + ty)
                b["blocks"][cur_bb]["stmts"].append(assign(P(r_l), {"k": "ref", "mut": False, "fake": False, "p": P(l, ty=ty)}, loc))
                return r_l

            failed = []

            def none_stmt(st_):
                if not b["blocks"][none]["stmts"]:
                    b["blocks"][none]["stmts"].append(st_)

            def emit(cur_bb, e_l, ety, skip):
                ok = True
                last_flat = None
                for si_, (stage, sf, _cb, _fn) in enumerate(stages):
                    rty = fn_ret_ty(sf) if sf is not None else ety
                    if stage == "map":
                        res, cur_bb = run_fn(cur_bb, sf, [use(mv(e_l, ety))], rty)
                        e_l, ety = res, rty
                    elif stage in ("filter", "inspect"):
                        r_l = ref_of(cur_bb, e_l, ety)
                        res, cur_bb = run_fn(cur_bb, sf, [use(mv(r_l))], rty)
                        if stage == "filter":
                            nxt = new_block(b, [], None, loc)
                            b["blocks"][cur_bb]["term"] = {"k": "switch", "d": mv(res, "bool"), "dty": "bool", "ts": [[0, skip]], "else": nxt}
                            cur_bb = nxt
                    elif stage == "filter_map":
                        res, cur_bb = run_fn(cur_bb, sf, [use(mv(e_l, ety))], rty)
                        d2 = new_local(b, "isize")
                        nxt = new_block(b, [], None, loc)
                        un2 = new_block(b, [], {"k": "unreachable"}, loc)
                        b["blocks"][cur_bb]["stmts"].append(assign(P(d2), {"k": "discr", "p": P(res, ty=rty)}, loc))
                        b["blocks"][cur_bb]["term"] = {"k": "switch", "d": mv(d2), "dty": "isize", "ts": [[0, skip], [1, nxt]], "else": un2}
                        inner = rty[len("std::option::Option<"):-1] if rty.startswith("std::option::Option<") else "?"
                        v = new_local(b, inner)
                        b["blocks"][nxt]["stmts"].append(assign(P(v, ty=inner), use({"k": "move", "p": P(res, [{"dc": "Some"}, {"f": 0, "n": "0"}], inner)}), loc))
                        e_l, ety, cur_bb = v, inner, nxt
                    elif stage in ("flat_map", "flatten"):
                        if stage == "flat_map":
                            res, cur_bb = run_fn(cur_bb, sf, [use(mv(e_l, ety))], rty)
                        else:
                            res, rty = e_l, ety
                        if si_ == len(stages) - 1 and sink == "extend" and coll and coll[0].startswith("std::vec::Vec<") and rty.startswith("std::vec::Vec<"):
                            last_flat = (res, rty)
                            break
                        if rty.startswith("std::option::Option<"):
                            # an Option yields its payload once or nothing: `if let Some(x) = opt { .. }`
                            d3 = new_local(b, "isize")
                            nxt3 = new_block(b, [], None, loc)
                            un3 = new_block(b, [], {"k": "unreachable"}, loc)
                            b["blocks"][cur_bb]["stmts"].append(assign(P(d3), {"k": "discr", "p": P(res, ty=rty)}, loc))
                            b["blocks"][cur_bb]["term"] = {"k": "switch", "d": mv(d3), "dty": "isize", "ts": [[0, skip], [1, nxt3]], "else": un3}
                            inner3 = rty[len("std::option::Option<"):-1]
                            v3 = new_local(b, inner3)
                            b["blocks"][nxt3]["stmts"].append(assign(P(v3, ty=inner3), use({"k": "move", "p": P(res, [{"dc": "Some"}, {"f": 0, "n": "0"}], inner3)}), loc))
                            e_l, ety, cur_bb = v3, inner3, nxt3
                            continue
                        ity2 = ("std::vec::IntoIter<" + rty[len("std::vec::Vec<"):]) if rty.startswith("std::vec::Vec<") else \
                            ("std::option::IntoIter<" + rty[len("std::option::Option<"):]) if rty.startswith("std::option::Option<") else rty
                        it2 = new_local(b, ity2, "iter")
                        b["blocks"][cur_bb]["stmts"].append(assign(P(it2, ty=ity2), use(mv(res, rty)), loc))
                        head2, some2, opt2 = open_loop(it2, ity2, skip)
                        b["blocks"][cur_bb]["term"] = goto(head2)
                        ety = "?"
                        e_l = new_local(b, ety)
                        b["blocks"][some2]["stmts"].append(assign(P(e_l, ty=ety), use({"k": "move", "p": P(opt2, [{"dc": "Some"}, {"f": 0, "n": "0"}], ety)}), loc))
                        cur_bb, skip = some2, head2
                    else:
                        ok = False
                if not ok:
                    failed.append(1)
                    return

                def add_to(cur_bb, acc_operand_rv, elem_l, elem_ty, then):
                    """one push / insert of the element into the collection, then goto `then`"""
                    ra = new_local(b, "&mut " + coll[0])
                    ig = new_local(b, "()")
                    b["blocks"][cur_bb]["stmts"].append(assign(P(ra), acc_operand_rv, loc))
                    if coll[3] == 2:
                        k_l, v_l = new_local(b, "?"), new_local(b, "?")
                        b["blocks"][cur_bb]["stmts"].append(assign(P(k_l), use({"k": "move", "p": P(elem_l, [{"f": 0, "n": "0"}], "?")}), loc))
                        b["blocks"][cur_bb]["stmts"].append(assign(P(v_l), use({"k": "move", "p": P(elem_l, [{"f": 1, "n": "1"}], "?")}), loc))
                        argv = [mv(ra), mv(k_l), mv(v_l)]
                    else:
                        argv = [mv(ra), mv(elem_l, elem_ty)]
                    b["blocks"][cur_bb]["term"] = call(fn_operand(coll[2], []), argv, P(ig), then, loc)

                if sink == "collect":
                    add_to(cur_bb, {"k": "ref", "mut": True, "fake": False, "p": P(acc_l, ty=coll[0])}, e_l, ety, skip)
                    none_stmt(assign(copy.deepcopy(dest), use(mv(acc_l, coll[0])), loc))
                    b["blocks"][none]["term"] = goto(cont)
                elif sink == "extend":
                    reborrow = {"k": "ref", "mut": True, "fake": False, "p": {"l": acc_ref["p"]["l"], "pr": list(acc_ref["p"]["pr"]) + ["deref"], "ty": coll[0]}}
                    if last_flat is not None:
                        res, rty = last_flat
                        ra = new_local(b, "&mut " + coll[0])
                        rr = new_local(b, "&mut " + rty)
                        ig = new_local(b, "()")
                        b["blocks"][cur_bb]["stmts"].append(assign(P(ra), reborrow, loc))
                        b["blocks"][cur_bb]["stmts"].append(assign(P(rr), {"k": "ref", "mut": True, "fake": False, "p": P(res, ty=rty)}, loc))
                        b["blocks"][cur_bb]["term"] = call(fn_operand("std::vec::Vec::<T, A>::append", []), [mv(ra), mv(rr)], P(ig), skip, loc)
                    else:
                        add_to(cur_bb, reborrow, e_l, ety, skip)
                    b["blocks"][none]["term"] = goto(cont)
                elif sink in ("any", "all"):
                    res, cur_bb = run_fn(cur_bb, sink_f, [use(mv(e_l, ety))], "bool")
                    hit = new_block(b, [assign(copy.deepcopy(dest), use(cbool(sink == "any")), loc)], goto(cont), loc)
                    if sink == "any":
                        b["blocks"][cur_bb]["term"] = {"k": "switch", "d": mv(res, "bool"), "dty": "bool", "ts": [[0, skip]], "else": hit}
                    else:
                        b["blocks"][cur_bb]["term"] = {"k": "switch", "d": mv(res, "bool"), "dty": "bool", "ts": [[0, hit]], "else": skip}
                    none_stmt(assign(copy.deepcopy(dest), use(cbool(sink != "any")), loc))
                    b["blocks"][none]["term"] = goto(cont)
                elif sink == "find":
                    r_l = ref_of(cur_bb, e_l, ety)
                    res, cur_bb = run_fn(cur_bb, sink_f, [use(mv(r_l))], "bool")
                    hit = new_block(b, [assign(copy.deepcopy(dest), adt_agg("std::option::Option", "Some", 1, [mv(e_l, ety)]), loc)], goto(cont), loc)
                    b["blocks"][cur_bb]["term"] = {"k": "switch", "d": mv(res, "bool"), "dty": "bool", "ts": [[0, skip]], "else": hit}
                    none_stmt(assign(copy.deepcopy(dest), adt_agg("std::option::Option", "None", 0, []), loc))
                    b["blocks"][none]["term"] = goto(cont)
                elif sink == "find_map":
                    rty = fn_ret_ty(sink_f)
                    res, cur_bb = run_fn(cur_bb, sink_f, [use(mv(e_l, ety))], rty)
                    d2 = new_local(b, "isize")
                    un2 = new_block(b, [], {"k": "unreachable"}, loc)
                    # (at the hit the closure's result is known to be Some: say so, so that a following `?` / match sees the variant)
                    hit = new_block(b, [assign(copy.deepcopy(dest), adt_agg("std::option::Option", "Some", 1, [{"k": "move", "p": P(res, [{"dc": "Some"}, {"f": 0, "n": "0"}], "")}]), loc)],
                                    goto(cont), loc)
                    b["blocks"][cur_bb]["stmts"].append(assign(P(d2), {"k": "discr", "p": P(res, ty=rty)}, loc))
                    b["blocks"][cur_bb]["term"] = {"k": "switch", "d": mv(d2), "dty": "isize", "ts": [[0, skip], [1, hit]], "else": un2}
                    none_stmt(assign(copy.deepcopy(dest), adt_agg("std::option::Option", "None", 0, []), loc))
                    b["blocks"][none]["term"] = goto(cont)
                elif sink == "for":
                    # the body of the loop runs for what comes out of the last stage; its `continue`s fetch the next element of the innermost source
                    h_, sw_, some_, exhausted_, body_ = for_loop
                    ob = b["blocks"][some_]
                    ob["stmts"][0] = assign(copy.deepcopy(ob["stmts"][0]["p"]), use(mv(e_l, ety)), ob["stmts"][0].get("loc") or loc)
                    b["blocks"][cur_bb]["term"] = goto(some_)
                    for x_ in body_:
                        nb_ = rename(b["blocks"][x_], {}, {h_: skip})
                        b["blocks"][x_]["term"] = nb_["term"]
                    b["blocks"][none]["term"] = goto(exhausted_)
                elif sink == "fold":
                    # `acc = init; for e in it { acc = f(acc, e) }; acc`
                    b["_fold"] = True
                    aty = dest.get("ty") or b["locals"][dest["l"]]["ty"]
                    res, cur_bb = run_fn(cur_bb, sink_f, [use({"k": "move", "p": copy.deepcopy(dest)}), use(mv(e_l, ety))], aty)
                    b["blocks"][cur_bb]["stmts"].append(assign(copy.deepcopy(dest), use(mv(res, aty)), loc))
                    b["blocks"][cur_bb]["term"] = goto(skip)
                    b["blocks"][none]["term"] = goto(cont)
                elif sink == "last":
                    # every element overwrites what is remembered: after exhaustion the last one is left (None for an empty source)
                    b["blocks"][cur_bb]["stmts"].append(assign(copy.deepcopy(dest), adt_agg("std::option::Option", "Some", 1, [mv(e_l, ety)]), loc))
                    b["blocks"][cur_bb]["term"] = goto(skip)
                    b["blocks"][none]["term"] = goto(cont)
                else:  # for_each
                    res, cur_bb = run_fn(cur_bb, sink_f, [use(mv(e_l, ety))], "()")
                    b["blocks"][cur_bb]["term"] = goto(skip)
                    b["blocks"][none]["term"] = goto(cont)

            for (st_bb, st_e, st_skip) in starts:
                emit(st_bb, st_e, ety0, st_skip)
            if failed:
                continue
            if sink == "for":
                blk["term"] = goto(first_bb)
            for (_op, _ty, cbk) in (chained or []):
                st = b["blocks"][cbk]["term"] if cbk is not None else None
                if st is not None and st["k"] == "call":
                    b["blocks"][cbk]["term"] = goto(st["t"])
            # the stage calls become dead definitions: neutralise them so that they do not show up as call sites
            for (stage, sf, cbk, _fn) in stages:
                st = b["blocks"][cbk]["term"]
                if st is not None and st["k"] == "call":
                    b["blocks"][cbk]["term"] = goto(st["t"])
            log.append("%s: %s%s desugared" % (b["path"], "+".join(s_[0] for s_ in stages) + ("+" if stages else ""), sink))
            changed = True
            break
    return used



# ------------------------------------------------------------------ tuples held in one variable


def tuple_fields(ty):
    ty = (ty or "").strip()
    if not (ty.startswith("(") and ty.endswith(")")) or ty == "()" or "->" in ty:
        return None
    parts, depth, cur = [], 0, ""
    for ch in ty[1:-1]:
        if ch in "<([":
            depth += 1
        elif ch in ">)]":
            depth -= 1
        if ch == "," and depth == 0:
            parts.append(cur.strip())
            cur = ""
        else:
            cur += ch
    if cur.strip():
        parts.append(cur.strip())
    return parts if len(parts) >= 2 else None


def split_tuples(b, log):
    """a local of tuple type that is only ever built from its components, copied whole, or read component by component (`let (a, b) = ..fold((0, 0),
    |(a, b), x| ..)`, `let mut state = (x, y)`) is replaced by one local per component: exactly what the compiler's own scalar replacement does.
    Locals whose address is taken whole, that receive a call's result or that are parameters stay as they are."""
    nargs = b.get("arg_count", 0)
    cands = {}
    for i, l in enumerate(b["locals"]):
        if i > nargs:
            fs = tuple_fields(l["ty"])
            if fs:
                cands[i] = fs
    if not cands:
        return False
    bad = set()

    def is_field(e):
        return isinstance(e, dict) and "f" in e and isinstance(e["f"], int)

    flows = []  # (L, Y): `Y = use(L)`, both whole tuple locals

    def scan(x):
        """any occurrence other than `L.k..` disqualifies L (whole copies between candidates are looked at by the caller)"""
        if isinstance(x, list):
            for v in x:
                scan(v)
        elif isinstance(x, dict):
            if "l" in x and "pr" in x:
                if x["l"] in cands and (not x["pr"] or not is_field(x["pr"][0]) or x["pr"][0]["f"] >= len(cands[x["l"]])):
                    bad.add(x["l"])
                return
            for v in x.values():
                scan(v)

    for blk in b["blocks"]:
        for st in blk["stmts"]:
            if st["k"] != "assign":
                scan(st)
                continue
            p, rv = st["p"], st["rv"]
            if p["l"] in cands and not p["pr"]:
                n = len(cands[p["l"]])
                if rv["k"] == "agg" and rv.get("ak") == "tuple" and len(rv["ops"]) == n:
                    scan(rv["ops"])
                elif rv["k"] == "use" and rv["o"]["k"] in ("move", "copy"):
                    src = rv["o"]["p"]
                    if src["l"] in cands and not src["pr"]:
                        flows.append((src["l"], p["l"]))
                        if len(cands[src["l"]]) != n:
                            bad.add(p["l"])
                    else:
                        scan(src)
                else:
                    bad.add(p["l"])
                    scan(rv)
            else:
                scan(p)
                scan(rv)
        t = blk["term"]
        if t is None:
            continue
        if t["k"] == "drop" and t.get("p") and t["p"]["l"] in cands and not t["p"]["pr"]:
            continue
        scan(t)
    grew = True
    while grew:  # a whole copy into a local that is not split would need the tuple to be put together again: the source then stays whole too
        grew = False
        for (L, Y) in flows:
            if Y in bad and L not in bad:
                bad.add(L)
                grew = True
    live = {l: fs for l, fs in cands.items() if l not in bad}
    if not live:
        return False
    parts = {}
    for l, fs in live.items():
        nm = b["locals"][l].get("name")
        parts[l] = [new_local(b, fty, ("%s.%d" % (nm, k)) if nm else None) for k, fty in enumerate(fs)]
        for k, nl in enumerate(parts[l]):
            b["locals"][nl]["user"] = b["locals"][l].get("user", False)

    def fld(place, k, fty):
        return {"l": place["l"], "pr": list(copy.deepcopy(place["pr"])) + [{"f": k, "n": str(k)}], "ty": fty}

    def whole_operand_temps(x, pre, loc):
        """operands that are a whole split local: materialise the tuple just before"""
        if isinstance(x, list):
            for v in x:
                whole_operand_temps(v, pre, loc)
        elif isinstance(x, dict):
            if x.get("k") in ("move", "copy") and "p" in x and isinstance(x["p"], dict):
                pl = x["p"]
                if pl["l"] in live and not pl["pr"]:
                    fs = live[pl["l"]]
                    tl = new_local(b, b["locals"][pl["l"]]["ty"])
                    pre.append(assign(P(tl, ty=b["locals"][pl["l"]]["ty"]),
                                      {"k": "agg", "ak": "tuple", "ops": [{"k": x["k"], "p": P(parts[pl["l"]][k], ty=fs[k])} for k in range(len(fs))]}, loc))
                    x["p"] = P(tl, ty=b["locals"][pl["l"]]["ty"])
                return
            if "l" in x and "pr" in x:
                return
            for v in x.values():
                whole_operand_temps(v, pre, loc)

    def project(x):
        """L.k.. -> L_k.."""
        if isinstance(x, list):
            for v in x:
                project(v)
        elif isinstance(x, dict):
            if "l" in x and "pr" in x:
                if x["l"] in live and x["pr"] and is_field(x["pr"][0]):
                    k = x["pr"][0]["f"]
                    x["l"] = parts[x["l"]][k]
                    x["pr"] = x["pr"][1:]
                    if not x["pr"]:
                        x["ty"] = x.get("ty") or live.get(x["l"], [""])[0] if False else (x.get("ty") or "")
                return
            for v in x.values():
                project(v)

    for blk in b["blocks"]:
        out = []
        for st in blk["stmts"]:
            loc = st.get("loc") or blk["tloc"]
            if st["k"] == "assign" and st["p"]["l"] in live and not st["p"]["pr"]:
                L = st["p"]["l"]
                fs = live[L]
                rv = st["rv"]
                if rv["k"] == "agg":
                    acc = set()
                    locals_in(rv["ops"], acc)
                    if acc & (set(live) | {x for ps in parts.values() for x in ps}):
                        tmps = []
                        for k, op in enumerate(rv["ops"]):
                            tl = new_local(b, fs[k])
                            out.append(assign(P(tl, ty=fs[k]), use(op), loc))
                            tmps.append(tl)
                        for k, tl in enumerate(tmps):
                            out.append(assign(P(parts[L][k], ty=fs[k]), use(mv(tl, fs[k])), loc))
                    else:
                        for k, op in enumerate(rv["ops"]):
                            out.append(assign(P(parts[L][k], ty=fs[k]), use(op), loc))
                else:
                    o = rv["o"]
                    for k in range(len(fs)):
                        out.append(assign(P(parts[L][k], ty=fs[k]), use({"k": o["k"], "p": fld(o["p"], k, fs[k])}), loc))
                continue
            pre = []
            whole_operand_temps(st["rv"] if st["k"] == "assign" else st, pre, loc)
            out += pre
            out.append(st)
        blk["stmts"] = out
        t = blk["term"]
        if t is not None:
            if t["k"] == "drop" and t.get("p") and t["p"]["l"] in live and not t["p"]["pr"]:
                blk["term"] = goto(t["t"])
            else:
                pre = []
                whole_operand_temps(t, pre, blk["tloc"])
                blk["stmts"] += pre
    for blk in b["blocks"]:
        project(blk["stmts"])
        if blk["term"] is not None:
            project(blk["term"])
    log.append("%s: %d tuple variable(s) replaced by their components" % (b["path"], len(live)))
    return True


def _slot_rw(x, is_term):
    reads, writes = set(), set()
    if not is_term:
        if x["k"] == "assign":
            pl = x["p"]
            if pl["pr"]:
                locals_in(pl, reads)
            writes.add(pl["l"])
            locals_in(x["rv"], reads)
        else:
            locals_in(x, reads)
    elif x is not None:
        if x["k"] == "call":
            locals_in(x["args"], reads)
            locals_in(x.get("f"), reads)
            if x["dest"]["pr"]:
                locals_in(x["dest"], reads)
            writes.add(x["dest"]["l"])
        else:
            locals_in(x, reads)
    return reads, writes


def thread_accumulators(b, log):
    """`acc = f(acc, e)` with f spliced in leaves the new value in a temporary that is copied to the accumulator after the arms of f have joined, and
    arms that keep a component unchanged copy it round (`p = acc; a = p; r = a; acc = r`). Both are removed: the temporary's definitions become
    definitions of the accumulator itself, a copy of the accumulator's own current value onto itself is dropped, and copies nobody reads go."""
    nargs = b.get("arg_count", 0)
    n_changes = 0
    for _round in range(400):
        changed = False
        blocks = b["blocks"]
        live = [i for i, blk in enumerate(blocks)]
        rw = {}
        readers, writers = {}, {}
        for bi in live:
            blk = blocks[bi]
            for si, st in enumerate(blk["stmts"]):
                r_, w_ = _slot_rw(st, False)
                rw[(bi, si)] = (r_, w_)
            r_, w_ = _slot_rw(blk["term"], True)
            rw[(bi, len(blk["stmts"]))] = (r_, w_)
        for k_, (r_, w_) in rw.items():
            for l in r_:
                readers.setdefault(l, []).append(k_)
            for l in w_:
                writers.setdefault(l, []).append(k_)
        preds = {}
        for bi in live:
            if blocks[bi].get("cleanup"):
                continue
            for t in succs(blocks[bi]):
                preds.setdefault(t, set()).add(bi)

        def whole_copy(st):
            if st["k"] == "assign" and not st["p"]["pr"] and st["rv"]["k"] == "use" and st["rv"]["o"]["k"] in ("move", "copy") and not st["rv"]["o"]["p"]["pr"]:
                return st["p"]["l"], st["rv"]["o"]["p"]["l"]
            return None

        dirty = set()
        # ---- A: a temporary read once, by `A = R`, every definition of which runs straight into that copy
        for bj in live:
            if bj in dirty or blocks[bj].get("cleanup"):
                continue
            for sj, st in enumerate(blocks[bj]["stmts"]):
                wc = whole_copy(st)
                if not wc or wc[0] == wc[1] or wc[1] <= nargs:
                    continue
                A, R = wc
                if readers.get(R, []) != [(bj, sj)] or b["locals"][R].get("user"):
                    continue
                defs = writers.get(R, [])
                if not defs or any(bd in dirty for (bd, _sd) in defs):
                    continue
                ok, chain = True, set()
                for (bd, sd) in defs:
                    x = blocks[bd]["term"] if sd == len(blocks[bd]["stmts"]) else blocks[bd]["stmts"][sd]
                    whole = (x["dest"] if sd == len(blocks[bd]["stmts"]) else x["p"])
                    if whole["pr"] or blocks[bd].get("cleanup"):
                        ok = False
                        break
                    cur, pos = bd, sd + 1
                    for _hop in range(8):
                        end = sj if cur == bj else len(blocks[cur]["stmts"]) + (0 if (cur == bd and sd == len(blocks[bd]["stmts"])) else 1)
                        if cur == bj and cur == bd and sd >= sj:
                            ok = False
                            break
                        for q in range(pos, end):
                            r_, w_ = rw[(cur, q)]
                            if A in r_ or A in w_ or R in w_:
                                ok = False
                        if not ok or cur == bj:
                            break
                        t_ = blocks[cur]["term"]
                        if cur == bd and sd == len(blocks[bd]["stmts"]):
                            nxt = t_.get("t")
                        elif t_["k"] == "goto":
                            nxt = t_["t"]
                        else:
                            nxt = None
                        if nxt is None:
                            ok = False
                            break
                        if cur != bd:
                            chain.add(cur)
                        cur, pos = nxt, 0
                    else:
                        ok = False
                    if not ok or cur != bj:
                        ok = False
                        break
                if not ok:
                    continue
                defblocks = set(bd for (bd, _sd) in defs)
                for x in chain | ({bj} - defblocks):
                    if not preds.get(x, set()) <= (chain | defblocks):
                        ok = False
                if not ok or (chain | defblocks | {bj}) & dirty:
                    continue
                dirty |= chain | defblocks | {bj}
                for (bd, sd) in defs:
                    if sd == len(blocks[bd]["stmts"]):
                        blocks[bd]["term"]["dest"] = copy.deepcopy(st["p"])
                    else:
                        blocks[bd]["stmts"][sd]["p"] = copy.deepcopy(st["p"])
                del blocks[bj]["stmts"][sj]
                changed = True
                break
        # ---- B: `A = X` with X a (copy of a copy of a) copy of A taken at P, A not written between P and here
        for bj in live:
            if bj in dirty or blocks[bj].get("cleanup"):
                continue
            for sj, st in enumerate(blocks[bj]["stmts"]):
                wc = whole_copy(st)
                if not wc:
                    continue
                A, X = wc
                P_ = None
                for _step in range(6):
                    if X == A:
                        break
                    ws_ = writers.get(X, [])
                    if X <= nargs or len(ws_) != 1 or ws_[0][1] >= len(blocks[ws_[0][0]]["stmts"]) or blocks[ws_[0][0]].get("cleanup"):
                        X = None
                        break
                    wc2 = whole_copy(blocks[ws_[0][0]]["stmts"][ws_[0][1]])
                    if not wc2 or wc2[0] != X:
                        X = None
                        break
                    P_ = ws_[0]
                    X = wc2[1]
                if X != A or P_ is None:
                    continue
                S_ = (bj, sj)

                def nexts(node):
                    bi_, si_ = node
                    if si_ < len(blocks[bi_]["stmts"]):
                        return [(bi_, si_ + 1)]
                    return [(t, 0) for t in succs(blocks[bi_]) if not blocks[t].get("cleanup")]
                fwd, stack = set(), nexts(P_)
                while stack:
                    nd = stack.pop()
                    if nd in fwd or nd == P_:
                        continue
                    fwd.add(nd)
                    if nd != S_:
                        stack += nexts(nd)
                if S_ not in fwd:
                    continue
                # backwards from S over the forward set
                back_edges = {}
                for nd in fwd:
                    if nd == S_:
                        continue
                    for m in nexts(nd):
                        back_edges.setdefault(m, []).append(nd)
                for m in nexts(P_):
                    back_edges.setdefault(m, [])
                bwd, stack = set(), [S_]
                while stack:
                    nd = stack.pop()
                    if nd in bwd:
                        continue
                    bwd.add(nd)
                    stack += [m for m in back_edges.get(nd, []) if m in fwd]
                if any(nd[0] in dirty or A in rw[nd][1] for nd in (fwd & bwd) if nd != S_ and nd in rw) or P_[0] in dirty:
                    continue
                del blocks[bj]["stmts"][sj]
                dirty.add(bj)
                changed = True
                break
        # ---- C: copies nobody reads
        for l, ws in writers.items():
            if l <= nargs or readers.get(l) or any(bd in dirty for (bd, _sd) in ws):
                continue
            sts = []
            for (bd, sd) in ws:
                if sd == len(blocks[bd]["stmts"]):
                    sts = None
                    break
                x = blocks[bd]["stmts"][sd]
                if x["k"] != "assign" or x["p"]["pr"] or x["rv"]["k"] != "use":
                    sts = None
                    break
                sts.append((bd, sd))
            if not sts:
                continue
            for (bd, sd) in sorted(sts, reverse=True):
                del blocks[bd]["stmts"][sd]
                dirty.add(bd)
            changed = True
        if changed:
            n_changes += 1
            continue
        break
    if n_changes:
        log.append("%s: %d accumulator copy step(s) removed" % (b["path"], n_changes))

# ------------------------------------------------------------------ Option combinators

OPT = "std::option::Option::<T>::"
RES = "std::result::Result::<T, E>::"
RES_COMB = ("map", "map_or", "and_then", "is_ok_and", "unwrap_or", "unwrap_or_default")
OPT_COMB = ("map", "map_or", "map_or_else", "and_then", "is_some_and", "is_none_or", "unwrap_or_else", "filter", "or_else", "unwrap_or", "unwrap_or_default", "or")


def opt_agg(variant, ops):
    return {"k": "agg", "ak": "adt", "adt": "std::option::Option", "variant": variant, "vi": 1 if variant == "Some" else 0, "ops": ops}


DISPATCHERS = ("analyzer::optimizations::analyze_for_optimization", "analyzer::vulnerabilities::analyze_for_vulnerability", "analyzer::qa::analyze_for_qa")
SECTION_DISPATCHERS = ("report::optimization_report::get_optimization_report_section", "report::vulnerability_report::get_vulnerability_report_section",
                       "report::qa_report::get_qa_report_section")
RETAIN = ("std::vec::Vec::<T, A>::retain", "std::collections::HashSet::<T, S, A>::retain", "std::collections::HashSet::<T, S>::retain",
          "std::collections::BTreeSet::<T, A>::retain")


def desugar_retain(b, bodies, known_uses, log):
    """`c.retain(|x| keep(x))` on a local Vec / set outside every loop: the elements are taken out and those for which the closure holds are put into
    a new collection, in order; later uses of `c` mean the new one. Written as that loop (closure spliced in)."""
    used = set()
    for _round in range(8):
        did = False
        for bi, blk in enumerate(b["blocks"]):
            t = blk["term"]
            if not t or t["k"] != "call" or blk.get("cleanup") or t.get("t") is None or len(t["args"]) != 2:
                continue
            fn = callee_of(t)
            if fn is None or fn["path"] not in RETAIN:
                continue
            if known_uses is not None and (b["path"], fn["path"]) in known_uses:
                continue
            r = t["args"][0]
            if r["k"] not in ("move", "copy") or r["p"]["pr"]:
                continue
            d = single_def(b, r["p"]["l"])
            if not (d and d[0] == "rv" and d[3]["k"] == "ref" and not d[3]["p"]["pr"]):
                continue
            L = d[3]["p"]["l"]
            cty = b["locals"][L]["ty"]
            coll = collection_of(cty)
            sf = stage_fn(b, t["args"][1], bodies)
            if coll is None or coll[3] != 1 or sf is None or sf[0] != "closure" or L <= b["arg_count"]:
                continue
            cont = t["t"]
            region = dominated(b, cont)
            if bi in region or cont not in region:
                continue  # inside a loop: the collection of the next round is the filtered one
            # every later mention of the collection must be behind the continuation
            reach, work = set(), [cont]
            while work:
                x = work.pop()
                if x in reach or b["blocks"][x].get("cleanup") or b["blocks"][x]["term"] is None:
                    continue
                reach.add(x)
                work += succs(b["blocks"][x])
            bad = False
            for x in reach - set(region):
                acc = set()
                locals_in(b["blocks"][x]["stmts"], acc)
                locals_in(b["blocks"][x]["term"], acc)
                if L in acc:
                    bad = True
            if bad:
                continue
            loc = blk["tloc"]
            pty = fn_param_ty(sf, 0)
            ety = pty[1:].lstrip() if pty.startswith("&") else "?"
            ity = normalise_assoc("<%s as std::iter::IntoIterator>::IntoIter" % cty)
            N = new_local(b, cty, b["locals"][L].get("name"))
            it_l = new_local(b, ity, "iter")
            opt_l = new_local(b, "std::option::Option<%s>" % ety)
            ref_l = new_local(b, "&mut " + ity)
            d_l = new_local(b, "isize")
            e_l = new_local(b, ety)
            re_l = new_local(b, "&" + ety)
            res = new_local(b, "bool")
            ra = new_local(b, "&mut " + cty)
            ig = new_local(b, "()")
            head = new_block(b, [], None, loc)
            sw = new_block(b, [], None, loc)
            unreach = new_block(b, [], {"k": "unreachable"}, loc)
            some = new_block(b, [], None, loc)
            test = new_block(b, [], None, loc)
            keep = new_block(b, [], None, loc)
            mk_it = new_block(b, [], None, loc)
            blk["term"] = call(fn_operand(coll[1], []), [], P(N, ty=cty), mk_it, loc)
            b["blocks"][mk_it]["term"] = call(fn_operand("std::iter::IntoIterator::into_iter", [cty], trait="std::iter::IntoIterator", self_ty=cty), [mv(L, cty)], P(it_l, ty=ity), head, loc)
            b["blocks"][head]["stmts"] = [assign(P(ref_l), {"k": "ref", "mut": True, "fake": False, "p": P(it_l, ty=ity)}, loc)]
            b["blocks"][head]["term"] = call(fn_operand(ITER + "next", [ity], trait="std::iter::Iterator", self_ty=ity), [mv(ref_l)], P(opt_l), sw, loc)
            b["blocks"][sw]["stmts"] = [assign(P(d_l), {"k": "discr", "p": P(opt_l, ty="std::option::Option<%s>" % ety)}, loc)]
            b["blocks"][sw]["term"] = {"k": "switch", "d": mv(d_l), "dty": "isize", "ts": [[0, cont], [1, some]], "else": unreach}
            b["blocks"][some]["stmts"] = [assign(P(e_l, ty=ety), use({"k": "move", "p": P(opt_l, [{"dc": "Some"}, {"f": 0, "n": "0"}], ety)}), loc),
                                          assign(P(re_l), {"k": "ref", "mut": False, "fake": False, "p": P(e_l, ty=ety)}, loc)]
            g, cl_op = sf[1], sf[2]
            pro, entry = splice(b, g, [env_rvalue(g, cl_op), use(mv(re_l))], P(res, ty="bool"), test, loc)
            b["blocks"][some]["stmts"] += pro
            b["blocks"][some]["term"] = goto(entry)
            used.add(g["path"])
            b["blocks"][test]["term"] = {"k": "switch", "d": mv(res, "bool"), "dty": "bool", "ts": [[0, head]], "else": keep}
            b["blocks"][keep]["stmts"] = [assign(P(ra), {"k": "ref", "mut": True, "fake": False, "p": P(N, ty=cty)}, loc)]
            b["blocks"][keep]["term"] = call(fn_operand(coll[2], []), [mv(ra), mv(e_l, ety)], P(ig), head, loc)
            for x in region:
                nb = rename(b["blocks"][x], {L: N}, {})
                b["blocks"][x]["stmts"], b["blocks"][x]["term"] = nb["stmts"], nb["term"]
            log.append("%s: retain with a closure written as a loop that rebuilds the collection" % b["path"])
            did = True
            break
        if not did:
            break
    return used


LAZY_CELLS = ("std::sync::OnceLock::<T>::", "std::cell::OnceCell::<T>::")


def static_of_operand(b, o):
    """the static item an operand refers to (`&STATIC`, possibly through a reborrow), or None"""
    for _ in range(4):
        if o["k"] == "const":
            return o.get("static")
        if o["k"] not in ("move", "copy") or o["p"]["pr"]:
            return None
        d = single_def(b, o["p"]["l"])
        if d is None or d[0] != "rv":
            return None
        rv = d[3]
        if rv["k"] == "use":
            o = rv["o"]
        elif rv["k"] == "ref" and rv["p"]["pr"] == ["deref"]:
            o = {"k": "copy", "p": {"l": rv["p"]["l"], "pr": []}}
        else:
            return None
    return None


def lazy_statics(data, bodies, log):
    """`static RE: OnceLock<T> = OnceLock::new(); .. RE.get_or_init(|| expr)` with a closure that captures nothing: a constant computed on first use.
    Every use denotes `&expr` (the closure has no inputs), so the call is written as that; the statics all of whose uses are of this form are listed
    in data['lazy_statics'] (R15.globals accepts exactly those)"""
    cands = {}
    for b in data["bodies"]:
        if str(b.get("kind", "")).startswith("Static") and not b.get("derived"):
            calls = [blk["term"] for blk in b["blocks"] if not blk.get("cleanup") and blk["term"] and blk["term"]["k"] == "call"]
            if len(calls) == 1 and (callee_of(calls[0]) or {}).get("path") in [p + "new" for p in LAZY_CELLS] and not calls[0]["args"]:
                cands[b["path"]] = 0
    if not cands:
        return set()
    used = set()
    other = set()
    for b in data["bodies"]:
        if b.get("derived") or str(b.get("kind", "")).startswith("Static"):
            continue
        for bi in range(len(b["blocks"])):
            blk = b["blocks"][bi]
            t = blk["term"]
            if blk.get("cleanup") or not t or t["k"] != "call" or t.get("t") is None:
                continue
            fn = callee_of(t)
            if fn is None or fn["path"] not in [p + "get_or_init" for p in LAZY_CELLS] or len(t["args"]) != 2:
                continue
            st = static_of_operand(b, t["args"][0])
            g = closure_of_operand(b, t["args"][1], bodies)
            if st not in cands or g is None or g["arg_count"] != 1:
                continue
            d = single_def(b, t["args"][1]["p"]["l"])
            if d is None or d[3].get("ops"):
                continue  # the closure captures something: its value may differ from one first use to another
            loc = blk["tloc"]
            dest, cont = t["dest"], t["t"]
            rty = fn_ret_ty(("closure", g))
            res = new_local(b, rty)
            after = new_block(b, [assign(copy.deepcopy(dest), {"k": "ref", "mut": False, "fake": False, "p": P(res, ty=rty)}, loc)], goto(cont), loc)
            pro, entry = splice(b, g, [env_rvalue(g, t["args"][1])], P(res, ty=rty), after, loc)
            blk["stmts"] += pro
            blk["term"] = goto(entry)
            used.add(g["path"])
            cands[st] += 1
            # the reference to the static that fed the call is dead now
            o = t["args"][0]
            for _ in range(4):
                if o["k"] != "move" and o["k"] != "copy":
                    break
                dd = single_def(b, o["p"]["l"])
                if dd is None or dd[0] != "rv":
                    break
                rv = dd[3]
                nxt = rv["o"] if rv["k"] == "use" else ({"k": "copy", "p": {"l": rv["p"]["l"], "pr": []}} if rv["k"] == "ref" else None)
                b["blocks"][dd[1]]["stmts"][dd[2]] = {"k": "nop", "loc": b["blocks"][dd[1]]["stmts"][dd[2]].get("loc")}
                if nxt is None or nxt["k"] == "const":
                    break
                o = nxt
            log.append("%s: %s.get_or_init(closure without captures) written as the closure's value" % (b["path"], st.rsplit("::", 1)[-1]))
    # any remaining mention of the static (another accessor, a `set`, ..) disqualifies it

    def scan(x):
        if isinstance(x, dict):
            if x.get("k") == "const" and x.get("static"):
                other.add(x["static"])
            for v in x.values():
                scan(v)
        elif isinstance(x, list):
            for v in x:
                scan(v)
    for b in data["bodies"]:
        if b["path"] in used:
            continue
        scan(b["blocks"])
    data["lazy_statics"] = sorted(p for p, n_ in cands.items() if n_ > 0 and p not in other)
    return used


def never_returns(g):
    """no path from the entry of this body reaches its return (it always ends in a panic / abort / endless loop)"""
    seen, work = set(), [0]
    while work:
        i = work.pop()
        if i in seen or i >= len(g["blocks"]):
            continue
        seen.add(i)
        blk = g["blocks"][i]
        if blk.get("cleanup") or blk["term"] is None:
            continue
        if blk["term"]["k"] == "return":
            return False
        work += succs(blk)
    return True


def diverging_unwrap_or_else(b, bodies, log):
    """`x.unwrap_or_else(|..| panic!(..))`: the closure never produces a value, so this is `x.expect(..)` with a message computed on demand
    (what clippy's expect_fun_call asks for); written as the expect it stands for"""
    for blk in b["blocks"]:
        t = blk["term"]
        if not t or t["k"] != "call" or blk.get("cleanup") or t.get("t") is None or len(t["args"]) != 2:
            continue
        fn = callee_of(t)
        if fn is None or fn["path"] not in (OPT + "unwrap_or_else", RES + "unwrap_or_else"):
            continue
        g = closure_of_operand(b, t["args"][1], bodies)
        if g is None or not never_returns(g):
            continue
        path = fn["path"][: -len("unwrap_or_else")] + "expect"
        fn2 = dict(fn)
        fn2.update({"path": path, "name": "expect", "resolved": path, "gargs": list(fn.get("gargs") or [])[: (1 if path.startswith(OPT) else 2)]})
        t["f"] = {"k": "const", "ty": "fn {%s}" % path, "disp": path, "fn": fn2}
        t["args"] = [t["args"][0], {"k": "const", "ty": "&str", "disp": "\"<message built by the closure>\""}]
        log.append("%s: unwrap_or_else with a closure that only panics written as expect" % b["path"])


def desugar_option_combinators(b, bodies, known_uses, log):
    """`opt.map(f)`, `map_or`, `and_then`, `is_some_and`, `unwrap_or_else`, `filter`, .. with a closure argument are rewritten into the `match` they
    abbreviate, the closure body spliced into the arm that calls it"""
    used = set()
    for _round in range(40):
        did = False
        for bi, blk in enumerate(b["blocks"]):
            t = blk["term"]
            if t["k"] != "call" or blk.get("cleanup") or t.get("t") is None:
                continue
            fn = callee_of(t)
            if fn is None:
                continue
            if fn["path"].startswith(OPT) and fn["path"][len(OPT):] in OPT_COMB:
                name = fn["path"][len(OPT):]
                YES, NO, ADT, YES_I, TYPRE = "Some", "None", "std::option::Option", 1, "std::option::Option<"
            elif fn["path"].startswith(RES) and fn["path"][len(RES):] in RES_COMB:
                name = {"is_ok_and": "is_some_and"}.get(fn["path"][len(RES):], fn["path"][len(RES):])
                YES, NO, ADT, YES_I, TYPRE = "Ok", "Err", "std::result::Result", 0, "std::result::Result<"
            else:
                continue
            is_res = ADT.endswith("Result")

            def opt_agg(variant, ops):  # shadows the module-level helper: builds the right ADT for Option or Result
                if variant == "Some":
                    return adt_agg(ADT, YES, YES_I, ops)
                return adt_agg(ADT, NO, 1 - YES_I, ops if not is_res else [{"k": "move", "p": P(src, [{"dc": "Err"}, {"f": 0, "n": "0"}], "")}])
            if known_uses is not None and (b["path"], fn["path"]) in known_uses:
                continue
            args = t["args"]
            if name == "or" and not is_res and len(args) == 2 and args[0]["k"] in ("move", "copy"):
                # a.or(b): a if it is Some, otherwise b
                loc = blk["tloc"]
                dest, cont = t["dest"], t["t"]
                oty = args[0]["p"].get("ty") or b["locals"][args[0]["p"]["l"]]["ty"]
                src = new_local(b, oty or (TYPRE + "?>"))
                d_l = new_local(b, "isize")
                blk["stmts"].append(assign(P(src, ty=oty), use(copy.deepcopy(args[0])), loc))
                blk["stmts"].append(assign(P(d_l), {"k": "discr", "p": P(src, ty=oty or (TYPRE + "?>"))}, loc))
                inner = oty[len(TYPRE):-1] if oty.startswith(TYPRE) else "?"
                # (said as `Some(payload)` so that a test of the result that follows knows the variant on this path)
                some = new_block(b, [assign(copy.deepcopy(dest), adt_agg(ADT, YES, YES_I, [{"k": "move", "p": P(src, [{"dc": YES}, {"f": 0, "n": "0"}], inner)}]), loc)], goto(cont), loc)
                none = new_block(b, [assign(copy.deepcopy(dest), use(copy.deepcopy(args[1])), loc)], goto(cont), loc)
                unreach = new_block(b, [], {"k": "unreachable"}, loc)
                blk["term"] = {"k": "switch", "d": mv(d_l), "dty": "isize", "ts": [[0, none], [1, some]], "else": unreach}
                log.append("%s: Option::or written as a match" % b["path"])
                did = True
                break
            if name == "or":
                continue
            if name in ("unwrap_or", "unwrap_or_default") and args and args[0]["k"] in ("move", "copy"):
                # no closure: Some(x) => x, None => the given / the default value
                loc = blk["tloc"]
                dest, cont = t["dest"], t["t"]
                oty = args[0]["p"].get("ty") or ""
                inner = (oty[len(TYPRE):-1].split(",")[0] if is_res else oty[len(TYPRE):-1]) if oty.startswith(TYPRE) else "?"
                src = new_local(b, oty or (TYPRE + "?>"))
                d_l = new_local(b, "isize")
                blk["stmts"].append(assign(P(src, ty=oty), use(copy.deepcopy(args[0])), loc))
                blk["stmts"].append(assign(P(d_l), {"k": "discr", "p": P(src, ty=oty or (TYPRE + "?>"))}, loc))
                some = new_block(b, [assign(copy.deepcopy(dest), use({"k": "move", "p": P(src, [{"dc": YES}, {"f": 0, "n": "0"}], inner)}), loc)], goto(cont), loc)
                if name == "unwrap_or":
                    none = new_block(b, [assign(copy.deepcopy(dest), use(copy.deepcopy(args[1])), loc)], goto(cont), loc)
                else:
                    none = new_block(b, [], call(fn_operand("std::default::Default::default", [inner], trait="std::default::Default", self_ty=inner), [], copy.deepcopy(dest), cont, loc), loc)
                unreach = new_block(b, [], {"k": "unreachable"}, loc)
                blk["term"] = {"k": "switch", "d": mv(d_l), "dty": "isize", "ts": [[1 - YES_I, none], [YES_I, some]], "else": unreach}
                log.append("%s: Option::%s written as a match" % (b["path"], name))
                did = True
                break
            cl_ops = [a for a in args[1:] if stage_fn(b, a, bodies) is not None and (closure_of_operand(b, a, bodies) is not None or a["k"] == "const" or "fn" in str(a.get("ty", "")) or "fn(" in (a.get("p") or {}).get("ty", "") or "{" in (a.get("p") or {}).get("ty", ""))]
            want = 2 if name == "map_or_else" else 1
            if len(cl_ops) != want or args[0]["k"] not in ("move", "copy"):
                continue
            loc = blk["tloc"]
            dest, cont = t["dest"], t["t"]
            o = args[0]
            oty = o["p"].get("ty") or ""
            inner = (oty[len(TYPRE):-1].split(",")[0] if is_res else oty[len(TYPRE):-1]) if oty.startswith(TYPRE) else "?"
            src = new_local(b, oty or (TYPRE + "?>"))
            d_l = new_local(b, "isize")
            blk["stmts"].append(assign(P(src, ty=oty), use(copy.deepcopy(o)), loc))
            blk["stmts"].append(assign(P(d_l), {"k": "discr", "p": P(src, ty=oty or (TYPRE + "?>"))}, loc))
            some = new_block(b, [], None, loc)
            none = new_block(b, [], None, loc)
            unreach = new_block(b, [], {"k": "unreachable"}, loc)
            blk["term"] = {"k": "switch", "d": mv(d_l), "dty": "isize", "ts": [[1 - YES_I, none], [YES_I, some]], "else": unreach}
            x = new_local(b, inner)
            b["blocks"][some]["stmts"].append(assign(P(x, ty=inner), use({"k": "move", "p": P(src, [{"dc": YES}, {"f": 0, "n": "0"}], inner)}), loc))

            def run(cur_bb, cl_op, arg_rvs):
                sf = stage_fn(b, cl_op, bodies)
                rty = fn_ret_ty(sf)
                res = new_local(b, rty)
                after = new_block(b, [], None, loc)
                if sf[0] == "closure":
                    g = sf[1]
                    loff_, boff_ = len(b["locals"]), len(b["blocks"])
                    pro, entry = splice(b, g, [env_rvalue(g, cl_op)] + arg_rvs, P(res, ty=rty), after, loc)
                    instantiate_spliced_closure(b, cl_op, loff_, boff_, bodies)
                    b["blocks"][cur_bb]["stmts"] += pro
                    b["blocks"][cur_bb]["term"] = goto(entry)
                    used.add(g["path"])
                else:
                    ops = []
                    for rv_ in arg_rvs:
                        al = new_local(b, "?")
                        b["blocks"][cur_bb]["stmts"].append(assign(P(al), rv_, loc))
                        ops.append(mv(al))
                    b["blocks"][cur_bb]["term"] = call(copy.deepcopy(sf[1]), ops, P(res, ty=rty), after, loc)
                return res, rty, after

            dty = dest.get("ty") or b["locals"][dest["l"]]["ty"]
            if name == "map":
                r, rty, cur = run(some, cl_ops[0], [use(mv(x, inner))])
                b["blocks"][cur]["stmts"].append(assign(copy.deepcopy(dest), opt_agg("Some", [mv(r, rty)]), loc))
                b["blocks"][cur]["term"] = goto(cont)
                b["blocks"][none]["stmts"].append(assign(copy.deepcopy(dest), opt_agg("None", []), loc))
                b["blocks"][none]["term"] = goto(cont)
            elif name in ("and_then",):
                r, rty, cur = run(some, cl_ops[0], [use(mv(x, inner))])
                b["blocks"][cur]["stmts"].append(assign(copy.deepcopy(dest), use(mv(r, rty)), loc))
                b["blocks"][cur]["term"] = goto(cont)
                b["blocks"][none]["stmts"].append(assign(copy.deepcopy(dest), opt_agg("None", []), loc))
                b["blocks"][none]["term"] = goto(cont)
            elif name in ("is_some_and", "is_none_or"):
                r, rty, cur = run(some, cl_ops[0], [use(mv(x, inner))])
                b["blocks"][cur]["stmts"].append(assign(copy.deepcopy(dest), use(mv(r, rty)), loc))
                b["blocks"][cur]["term"] = goto(cont)
                b["blocks"][none]["stmts"].append(assign(copy.deepcopy(dest), use(cbool(name == "is_none_or")), loc))
                b["blocks"][none]["term"] = goto(cont)
            elif name == "map_or":
                r, rty, cur = run(some, args[2], [use(mv(x, inner))])
                b["blocks"][cur]["stmts"].append(assign(copy.deepcopy(dest), use(mv(r, rty)), loc))
                b["blocks"][cur]["term"] = goto(cont)
                b["blocks"][none]["stmts"].append(assign(copy.deepcopy(dest), use(copy.deepcopy(args[1])), loc))
                b["blocks"][none]["term"] = goto(cont)
            elif name == "map_or_else":
                r, rty, cur = run(some, args[2], [use(mv(x, inner))])
                b["blocks"][cur]["stmts"].append(assign(copy.deepcopy(dest), use(mv(r, rty)), loc))
                b["blocks"][cur]["term"] = goto(cont)
                r2, rty2, cur2 = run(none, args[1], [])
                b["blocks"][cur2]["stmts"].append(assign(copy.deepcopy(dest), use(mv(r2, rty2)), loc))
                b["blocks"][cur2]["term"] = goto(cont)
            elif name == "unwrap_or_else":
                b["blocks"][some]["stmts"].append(assign(copy.deepcopy(dest), use(mv(x, inner)), loc))
                b["blocks"][some]["term"] = goto(cont)
                r2, rty2, cur2 = run(none, cl_ops[0], [])
                b["blocks"][cur2]["stmts"].append(assign(copy.deepcopy(dest), use(mv(r2, rty2)), loc))
                b["blocks"][cur2]["term"] = goto(cont)
            elif name == "or_else":
                b["blocks"][some]["stmts"].append(assign(copy.deepcopy(dest), opt_agg("Some", [mv(x, inner)]), loc))
                b["blocks"][some]["term"] = goto(cont)
                r2, rty2, cur2 = run(none, cl_ops[0], [])
                b["blocks"][cur2]["stmts"].append(assign(copy.deepcopy(dest), use(mv(r2, rty2)), loc))
                b["blocks"][cur2]["term"] = goto(cont)
            elif name == "filter":
                rx = new_local(b, "&" + inner)
                b["blocks"][some]["stmts"].append(assign(P(rx), {"k": "ref", "mut": False, "fake": False, "p": P(x, ty=inner)}, loc))
                r, rty, cur = run(some, cl_ops[0], [use(mv(rx))])
                keep = new_block(b, [assign(copy.deepcopy(dest), opt_agg("Some", [mv(x, inner)]), loc)], goto(cont), loc)
                b["blocks"][cur]["term"] = {"k": "switch", "d": mv(r, "bool"), "dty": "bool", "ts": [[0, none]], "else": keep}
                b["blocks"][none]["stmts"].append(assign(copy.deepcopy(dest), opt_agg("None", []), loc))
                b["blocks"][none]["term"] = goto(cont)
            log.append("%s: Option::%s with a closure written as a match" % (b["path"], name))
            did = True
            break
        if not did:
            break
    return used


# ------------------------------------------------------------------ the `?` operator and closure-free combinators


def adt_agg(adt, variant, vi, ops):
    return {"k": "agg", "ak": "adt", "adt": adt, "variant": variant, "vi": vi, "ops": ops}


def desugar_try(b, log):
    """`x?` is lowered to Try::branch + a match on ControlFlow + FromResidual::from_residual; for Option and Result these are rewritten into
    the plain match they stand for. Likewise bool::then_some, Result::ok, Option::or / ok_or (no closure involved)."""
    n = 0
    for bi in range(len(b["blocks"])):
        blk = b["blocks"][bi]
        t = blk["term"]
        if t is None or t["k"] != "call" or blk.get("cleanup") or t.get("t") is None:
            continue
        fn = callee_of(t)
        if fn is None or not t["args"]:
            continue
        path = fn["path"]
        loc = blk["tloc"]
        dest, cont, args = t["dest"], t["t"], t["args"]
        a0 = args[0]
        a0ty = (a0.get("p") or {}).get("ty") or (b["locals"][a0["p"]["l"]]["ty"] if a0["k"] in ("move", "copy") and not a0["p"]["pr"] else "")
        is_opt = a0ty.startswith("std::option::Option<")
        is_res = a0ty.startswith("std::result::Result<")

        def split_on(src_ty, zero_stmts, one_stmts):
            """switch on the discriminant of arg 0: variant 0 / variant 1 blocks with the given statements, both continuing at cont"""
            src = new_local(b, src_ty)
            d_l = new_local(b, "isize")
            blk["stmts"].append(assign(P(src, ty=src_ty), use(copy.deepcopy(a0)), loc))
            blk["stmts"].append(assign(P(d_l), {"k": "discr", "p": P(src, ty=src_ty)}, loc))
            z = new_block(b, zero_stmts(src), goto(cont), loc)
            o = new_block(b, one_stmts(src), goto(cont), loc)
            u = new_block(b, [], {"k": "unreachable"}, loc)
            blk["term"] = {"k": "switch", "d": mv(d_l), "dty": "isize", "ts": [[0, z], [1, o]], "else": u}

        def payload(src, variant, ty=""):
            return {"k": "move", "p": P(src, [{"dc": variant}, {"f": 0, "n": "0"}], ty)}

        if path == "std::ops::Try::branch" and (is_opt or is_res) and a0["k"] in ("move", "copy"):
            CF = "std::ops::ControlFlow"
            if is_opt:
                # None = 0, Some = 1
                split_on(a0ty,
                         lambda src: [assign(copy.deepcopy(dest), adt_agg(CF, "Break", 1, [{"k": "const", "ty": "std::option::Option<std::convert::Infallible>", "disp": "None"}]), loc)],
                         lambda src: [assign(copy.deepcopy(dest), adt_agg(CF, "Continue", 0, [payload(src, "Some")]), loc)])
            else:
                # Ok = 0, Err = 1
                split_on(a0ty,
                         lambda src: [assign(copy.deepcopy(dest), adt_agg(CF, "Continue", 0, [payload(src, "Ok")]), loc)],
                         lambda src: [assign(copy.deepcopy(dest), adt_agg(CF, "Break", 1, [{"k": "move", "p": P(src, [], a0ty)}]), loc)])
            n += 1
        elif path == "std::ops::FromResidual::from_residual":
            dty = dest.get("ty") or b["locals"][dest["l"]]["ty"]
            if dty.startswith("std::option::Option<"):
                blk["stmts"].append(assign(copy.deepcopy(dest), adt_agg("std::option::Option", "None", 0, []), loc))
                blk["term"] = goto(cont)
                n += 1
            elif dty.startswith("std::result::Result<") and a0["k"] in ("move", "copy"):
                # Err(e) of the residual, converted with From (identity for the same error type)
                blk["stmts"].append(assign(copy.deepcopy(dest), adt_agg("std::result::Result", "Err", 1, [{"k": "move", "p": P(a0["p"]["l"], list(a0["p"]["pr"]) + [{"dc": "Err"}, {"f": 0, "n": "0"}], "")}]), loc))
                blk["term"] = goto(cont)
                n += 1
        elif path == "std::result::Result::<T, E>::ok" and is_res:
            split_on(a0ty,
                     lambda src: [assign(copy.deepcopy(dest), adt_agg("std::option::Option", "Some", 1, [payload(src, "Ok")]), loc)],
                     lambda src: [assign(copy.deepcopy(dest), adt_agg("std::option::Option", "None", 0, []), loc)])
            n += 1
        elif path == "std::option::Option::<T>::or" and is_opt and len(args) == 2:
            split_on(a0ty,
                     lambda src: [assign(copy.deepcopy(dest), use(copy.deepcopy(args[1])), loc)],
                     lambda src: [assign(copy.deepcopy(dest), adt_agg("std::option::Option", "Some", 1, [payload(src, "Some")]), loc)])
            n += 1
        elif path == "std::option::Option::<T>::ok_or" and is_opt and len(args) == 2:
            split_on(a0ty,
                     lambda src: [assign(copy.deepcopy(dest), adt_agg("std::result::Result", "Err", 1, [copy.deepcopy(args[1])]), loc)],
                     lambda src: [assign(copy.deepcopy(dest), adt_agg("std::result::Result", "Ok", 0, [payload(src, "Some")]), loc)])
            n += 1
        elif path in ("std::option::Option::<T>::is_some", "std::option::Option::<T>::is_none", "std::result::Result::<T, E>::is_ok",
                      "std::result::Result::<T, E>::is_err") and a0["k"] in ("move", "copy") and len(args) == 1:
            # a test of the variant: the same switch a `match` would use (so that a value built with a known variant on each path is seen through)
            oty = a0ty[1:].lstrip() if a0ty.startswith("&") else a0ty
            if oty.startswith(("std::option::Option<", "std::result::Result<")):
                is_o = oty.startswith("std::option::Option<")
                yes_i = 1 if is_o else 0  # Some = 1 ; Ok = 0
                positive = path.endswith(("is_some", "is_ok"))
                d_l = new_local(b, "isize")
                pl = {"l": a0["p"]["l"], "pr": list(a0["p"]["pr"]) + (["deref"] if a0ty.startswith("&") else []), "ty": oty}
                blk["stmts"].append(assign(P(d_l), {"k": "discr", "p": pl}, loc))
                yes = new_block(b, [assign(copy.deepcopy(dest), use(cbool(positive)), loc)], goto(cont), loc)
                no = new_block(b, [assign(copy.deepcopy(dest), use(cbool(not positive)), loc)], goto(cont), loc)
                u = new_block(b, [], {"k": "unreachable"}, loc)
                blk["term"] = {"k": "switch", "d": mv(d_l), "dty": "isize", "ts": [[yes_i, yes], [1 - yes_i, no]], "else": u}
                n += 1
        elif path in ("core::bool::<impl bool>::then_some", "std::bool::<impl bool>::then_some") and len(args) == 2:
            yes = new_block(b, [assign(copy.deepcopy(dest), adt_agg("std::option::Option", "Some", 1, [copy.deepcopy(args[1])]), loc)], goto(cont), loc)
            no = new_block(b, [assign(copy.deepcopy(dest), adt_agg("std::option::Option", "None", 0, []), loc)], goto(cont), loc)
            blk["term"] = {"k": "switch", "d": copy.deepcopy(a0), "dty": "bool", "ts": [[0, no]], "else": yes}
            n += 1
    if n:
        log.append("%s: %d `?` / then_some / ok / or step(s) written as the match they abbreviate" % (b["path"], n))


def desugar_bool_then(b, bodies, log):
    """`cond.then(|| value)`: Some(closure()) if cond else None"""
    used = set()
    for bi in range(len(b["blocks"])):
        blk = b["blocks"][bi]
        t = blk["term"]
        if t is None or t["k"] != "call" or blk.get("cleanup") or t.get("t") is None:
            continue
        fn = callee_of(t)
        if fn is None or fn["path"] not in ("core::bool::<impl bool>::then", "std::bool::<impl bool>::then") or len(t["args"]) != 2:
            continue
        g = closure_of_operand(b, t["args"][1], bodies)
        if g is None:
            continue
        loc = blk["tloc"]
        dest, cont = t["dest"], t["t"]
        rty = g["locals"][0]["ty"]
        res = new_local(b, rty)
        after = new_block(b, [assign(copy.deepcopy(dest), adt_agg("std::option::Option", "Some", 1, [mv(res, rty)]), loc)], goto(cont), loc)
        yes = new_block(b, [], None, loc)
        pro, entry = splice(b, g, [env_rvalue(g, t["args"][1])], P(res, ty=rty), after, loc)
        b["blocks"][yes]["stmts"] = pro
        b["blocks"][yes]["term"] = goto(entry)
        no = new_block(b, [assign(copy.deepcopy(dest), adt_agg("std::option::Option", "None", 0, []), loc)], goto(cont), loc)
        blk["term"] = {"k": "switch", "d": copy.deepcopy(t["args"][0]), "dty": "bool", "ts": [[0, no]], "else": yes}
        used.add(g["path"])
        log.append("%s: bool::then with a closure written as an if" % b["path"])
    return used


def split_known_unwraps(b, log):
    """`x.expect(..)` / `x.unwrap()` where x was built as Some(..) on some paths and None on others (a spliced helper's `find_map(..)` result): written
    as the match it is - the payload where x is Some, the same call (which can only panic) where it is None - so that each path keeps its own value"""
    n = 0
    for bi in range(len(b["blocks"])):
        blk = b["blocks"][bi]
        t = blk["term"]
        if t is None or t["k"] != "call" or blk.get("cleanup") or t.get("t") is None:
            continue
        fn = callee_of(t)
        if fn is None or fn["path"] not in ("std::option::Option::<T>::expect", "std::option::Option::<T>::unwrap") or not t["args"]:
            continue
        a = t["args"][0]
        if a["k"] not in ("move", "copy") or a["p"]["pr"]:
            continue
        x = a["p"]["l"]
        for _hop in range(4):
            d = single_def(b, x)
            if d and d[0] == "rv" and d[3]["k"] == "use" and d[3]["o"]["k"] in ("move", "copy") and not d[3]["o"]["p"]["pr"]:
                x = d[3]["o"]["p"]["l"]
            else:
                break
        defs = [st for blk2 in b["blocks"] if not blk2.get("cleanup") for st in blk2["stmts"] if st["k"] == "assign" and st["p"]["l"] == x]
        calls = [blk2 for blk2 in b["blocks"] if not blk2.get("cleanup") and blk2["term"] is not None and blk2["term"]["k"] == "call" and blk2["term"]["dest"]["l"] == x]
        if calls or len(defs) < 2 or any(st["p"]["pr"] or st["rv"]["k"] != "agg" or st["rv"].get("adt") != "std::option::Option" for st in defs):
            continue
        loc = blk["tloc"]
        oty = a["p"].get("ty") or b["locals"][a["p"]["l"]]["ty"]
        inner = oty[len("std::option::Option<"):-1] if oty.startswith("std::option::Option<") else "?"
        src = new_local(b, oty)
        d_l = new_local(b, "isize")
        blk["stmts"].append(assign(P(src, ty=oty), use(copy.deepcopy(a)), loc))
        blk["stmts"].append(assign(P(d_l), {"k": "discr", "p": P(src, ty=oty)}, loc))
        some = new_block(b, [assign(copy.deepcopy(t["dest"]), use({"k": "move", "p": P(src, [{"dc": "Some"}, {"f": 0, "n": "0"}], inner)}), loc)], goto(t["t"]), loc)
        t2 = copy.deepcopy(t)
        t2["args"][0] = mv(src, oty)
        t2["t"] = None  # (on None it never comes back)
        none = new_block(b, [], t2, loc)
        un = new_block(b, [], {"k": "unreachable"}, loc)
        blk["term"] = {"k": "switch", "d": mv(d_l), "dty": "isize", "ts": [[0, none], [1, some]], "else": un}
        n += 1
    if n:
        log.append("%s: %d unwrap / expect of a value built as Some or None on the way written as a match" % (b["path"], n))


def _closure_local_of(b, o, depth=0):
    """the local that holds the closure a call operand denotes, following copies, borrows and the captures of (spliced) closures"""
    if depth > 10 or o["k"] not in ("move", "copy"):
        return None
    l, pr = o["p"]["l"], [e for e in o["p"]["pr"] if e != "deref"]
    d = single_def(b, l)
    if d is None or d[0] != "rv":
        return None
    rv = d[3]
    if rv["k"] == "agg" and rv.get("ak") == "closure":
        if not pr:
            return l
        if isinstance(pr[0], dict) and "f" in pr[0] and pr[0]["f"] < len(rv["ops"]):
            inner = rv["ops"][pr[0]["f"]]
            if inner["k"] in ("move", "copy"):
                return _closure_local_of(b, {"k": "copy", "p": {"l": inner["p"]["l"], "pr": list(inner["p"]["pr"]) + pr[1:], "ty": ""}}, depth + 1)
        return None
    if rv["k"] == "use" and rv["o"]["k"] in ("move", "copy"):
        return _closure_local_of(b, {"k": "copy", "p": {"l": rv["o"]["p"]["l"], "pr": list(rv["o"]["p"]["pr"]) + pr, "ty": ""}}, depth + 1)
    if rv["k"] == "ref":
        return _closure_local_of(b, {"k": "copy", "p": {"l": rv["p"]["l"], "pr": list(rv["p"]["pr"]) + pr, "ty": ""}}, depth + 1)
    return None


def inline_closure_calls(b, bodies, log):
    """`let f = |x| ..; f(a)`: the call of a closure that is in scope is the closure's body with the arguments put in"""
    used = set()
    for bi in range(len(b["blocks"])):
        blk = b["blocks"][bi]
        t = blk["term"]
        if t is None or t["k"] != "call" or blk.get("cleanup") or t.get("t") is None:
            continue
        fn = callee_of(t)
        if fn is None or fn["path"] not in ("std::ops::Fn::call", "std::ops::FnMut::call_mut", "std::ops::FnOnce::call_once") or len(t["args"]) != 2:
            continue
        f = t["args"][0]
        if f["k"] not in ("move", "copy") or f["p"]["pr"]:
            continue
        # the closure value: handed over itself, borrowed just for the call, or reached through the captures of the closure this code came from
        cl = f
        d = single_def(b, f["p"]["l"])
        if d and d[0] == "rv" and d[3]["k"] == "ref" and not d[3]["p"]["pr"]:
            cl = {"k": "copy", "p": copy.deepcopy(d[3]["p"])}
        elif closure_of_operand(b, cl, bodies) is None:
            cl_l = _closure_local_of(b, f)
            if cl_l is not None:
                cl = {"k": "copy", "p": P(cl_l, ty=b["locals"][cl_l]["ty"])}
        g = closure_of_operand(b, cl, bodies)
        if g is None or g is b:
            continue
        a = t["args"][1]
        if a["k"] == "const":
            ops = []
        elif a["k"] in ("move", "copy") and not a["p"]["pr"]:
            da = single_def(b, a["p"]["l"])
            if not (da and da[0] == "rv" and da[3]["k"] == "agg" and da[3].get("ak") == "tuple"):
                continue
            ops = da[3]["ops"]
        else:
            continue
        if g["arg_count"] != 1 + len(ops):
            continue
        loc = blk["tloc"]
        loff_, boff_ = len(b["locals"]), len(b["blocks"])
        pro, entry = splice(b, g, [env_rvalue(g, cl)] + [use(copy.deepcopy(o)) for o in ops], copy.deepcopy(t["dest"]), t["t"], loc)
        instantiate_spliced_closure(b, cl, loff_, boff_, bodies)
        blk["stmts"] += pro
        blk["term"] = goto(entry)
        used.add(g["path"])
        log.append("%s: call of a local closure written as its body" % b["path"])
    return used


# ------------------------------------------------------------------ helper inlining


def is_closure(b):
    return b.get("kind") == "Closure" or "{closure#" in b["path"]


def local_callee(fn, bodies):
    if not (fn.get("resolved_local") or fn.get("local")):
        return None
    return bodies.get(fn.get("resolved") or "") or bodies.get(fn["path"])


def calls_of(b):
    for bi, blk in enumerate(b["blocks"]):
        t = blk["term"]
        if t["k"] == "call":
            fn = callee_of(t)
            if fn is not None:
                yield bi, t, fn


def reaches_itself(path, bodies, limit=200, known=None):
    """recursion among functions that would all be spliced (a cycle through a function of the reference inventory is that function's own
    recursion: splicing the new helper into it is still exact)"""
    seen, st = set(), [path]
    n = 0
    while st and n < limit:
        p = st.pop()
        n += 1
        g = bodies.get(p)
        if g is None:
            continue
        for _bi, _t, fn in calls_of(g):
            h = local_callee(fn, bodies)
            if h is None:
                continue
            if h["path"] == path:
                return True
            if known is not None and h["path"] in known:
                continue
            if h["path"] not in seen:
                seen.add(h["path"])
                st.append(h["path"])
    return False


INTO_ITER = (("std::collections::HashSet<", "std::collections::hash_set::IntoIter<", "std::collections::hash_set::Iter<'_, "),
             ("std::collections::HashMap<", "std::collections::hash_map::IntoIter<", "std::collections::hash_map::Iter<'_, "),
             ("std::collections::BTreeSet<", "std::collections::btree_set::IntoIter<", "std::collections::btree_set::Iter<'_, "),
             ("std::collections::BTreeMap<", "std::collections::btree_map::IntoIter<", "std::collections::btree_map::Iter<'_, "),
             ("std::collections::VecDeque<", "std::collections::vec_deque::IntoIter<", "std::collections::vec_deque::Iter<'_, "),
             ("std::vec::Vec<", "std::vec::IntoIter<", "std::slice::Iter<'_, "))


def _first_arg(inner):
    depth = 0
    for i, ch in enumerate(inner):
        if ch in "<([":
            depth += 1
        elif ch in ">)]":
            depth -= 1
        elif ch == "," and depth == 0:
            return inner[:i]
    return inner


def normalise_assoc(ty):
    """`<C as IntoIterator>::IntoIter` for the std collections (what the compiler would have printed had the type been known when the helper was compiled)"""
    marker = " as std::iter::IntoIterator>::IntoIter"
    for _ in range(8):
        j = ty.find(marker)
        if j < 0:
            break
        # the matching '<' of this projection
        depth, i = 0, j - 1
        while i >= 0:
            if ty[i] in ">)]":
                depth += 1
            elif ty[i] in "<([":
                if depth == 0:
                    break
                depth -= 1
            i -= 1
        if i < 0:
            break
        x = ty[i + 1:j]
        ref = x.startswith("&")
        base = re.sub(r"^&('\w+ )?(mut )?", "", x).strip() if ref else x
        rep = None
        for (coll, owned, borrowed) in INTO_ITER:
            if base.startswith(coll):
                inner = base[len(coll):-1]
                if coll.endswith(("HashSet<", "BTreeSet<", "VecDeque<", "Vec<")):
                    inner = _first_arg(inner)
                elif coll.endswith(("HashMap<", "BTreeMap<")):
                    k = _first_arg(inner)
                    inner = k + ", " + _first_arg(inner[len(k) + 1:].strip())
                rep = (borrowed if ref else owned) + inner + ">"
        if rep is None and ref and base.startswith("["):
            rep = "std::slice::Iter<'_, " + base[1:-1] + ">"
        if rep is None and ("Iter<" in base or base.startswith(("std::iter::", "core::iter::", "std::fs::ReadDir"))):
            rep = base  # an iterator is its own IntoIter
        if rep is None:
            break
        ty = ty[:i] + rep + ty[j + len(marker):]
    return ty


def instantiate(b, loff, boff, mapping):
    """the spliced copy of a generic helper: its type parameters are replaced by the call site's arguments in every type that is printed"""
    pats = [(re.compile(r"(?<![\w:'])%s(?![\w:])" % re.escape(k)), v) for k, v in mapping.items() if not k.startswith("impl ")]
    # an argument written `x: impl Trait<..>` is an unnamed type parameter, printed as that text (which may mention the named ones: it goes first)
    synthetic = [(k, v) for k, v in mapping.items() if k.startswith("impl ")]

    def sub(t):
        if not isinstance(t, str):
            return t
        for (k, v) in synthetic:
            t = t.replace(k, v)
        for (rx, v) in pats:
            t = rx.sub(lambda _m: v, t)
        return normalise_assoc(t)

    def walk(x):
        if isinstance(x, list):
            for v in x:
                walk(v)
        elif isinstance(x, dict):
            for key, v in list(x.items()):
                if key == "ty" and isinstance(v, str):
                    x[key] = sub(v)
                elif key == "fn" and isinstance(v, dict):
                    if isinstance(v.get("gargs"), list):
                        v["gargs"] = [sub(g_) for g_ in v["gargs"]]
                    if isinstance(v.get("self_ty"), str):
                        v["self_ty"] = sub(v["self_ty"])
                else:
                    walk(v)
    for l in b["locals"][loff:]:
        l["ty"] = sub(l["ty"])
        if isinstance(l.get("tt"), dict) and l["tt"].get("param") in mapping:
            l["tt"] = {"other": l["ty"]}
    walk(b["blocks"][boff:])


def _fn_item_ret_ty(fty):
    """`for<..> fn(A, B) -> R {path::of::item}` -> R"""
    i = fty.find("fn(")
    if i < 0:
        return None
    depth, j = 0, i + 2
    while j < len(fty):
        if fty[j] == "(":
            depth += 1
        elif fty[j] == ")":
            depth -= 1
            if depth == 0:
                break
        j += 1
    rest = fty[j + 1:]
    if not rest.startswith(" -> "):
        return None
    rest = rest[4:]
    depth = 0
    for k, ch in enumerate(rest):
        if ch in "<([":
            depth += 1
        elif ch in ">)]":
            if not (ch == ">" and k > 0 and rest[k - 1] in "-="):
                depth -= 1
        elif ch == "{" and depth == 0 and k > 0 and rest[k - 1] == " ":
            return rest[:k].strip()
    return None


def concrete_return_type(g):
    """the type of the value a body returns, read off the (single kind of) definition of its return place"""
    tys = set()
    for blk in g["blocks"]:
        if blk.get("cleanup"):
            continue
        for st in blk["stmts"]:
            if st["k"] == "assign" and st["p"]["l"] == 0 and not st["p"]["pr"]:
                rv = st["rv"]
                if rv["k"] == "use" and rv["o"]["k"] in ("move", "copy") and not rv["o"]["p"]["pr"]:
                    tys.add(g["locals"][rv["o"]["p"]["l"]]["ty"])
                else:
                    tys.add(None)
        t = blk["term"]
        if t and t["k"] == "call" and t["dest"]["l"] == 0 and not t["dest"]["pr"]:
            tys.add(_fn_item_ret_ty(t["f"].get("ty") or ""))
    return tys.pop() if len(tys) == 1 else None


def instantiate_exact(b, old_ty, new_ty):
    def sub(t):
        return t.replace(old_ty, new_ty) if isinstance(t, str) and old_ty in t else t

    def walk(x):
        if isinstance(x, list):
            for v in x:
                walk(v)
        elif isinstance(x, dict):
            for key, v in list(x.items()):
                if key == "ty" and isinstance(v, str):
                    x[key] = sub(v)
                elif key == "fn" and isinstance(v, dict):
                    if isinstance(v.get("gargs"), list):
                        v["gargs"] = [sub(g_) for g_ in v["gargs"]]
                    if isinstance(v.get("self_ty"), str):
                        v["self_ty"] = sub(v["self_ty"])
                else:
                    walk(v)
    for l in b["locals"]:
        l["ty"] = sub(l["ty"])
    walk(b["blocks"])


def instantiate_spliced_closure(b, cl_op, loff, boff, bodies):
    """a closure written inside a generic helper mentions the helper's type parameters; when it is spliced into a caller into which that helper was
    spliced, they stand for what they stood for at that call site"""
    rs = b.get("_generic_ranges")
    if not rs or cl_op.get("k") not in ("move", "copy"):
        return
    d = single_def(b, cl_op["p"]["l"])
    if not d or d[0] != "rv":
        return
    for (lo, hi, mapping) in rs:
        if lo <= d[1] < hi:
            instantiate(b, loff, boff, mapping)
            resolve_trait_calls(b, boff, bodies)
            b["_generic_ranges"].append((boff, len(b["blocks"]), mapping))
            return


def resolve_trait_calls(b, boff, bodies):
    """after a generic helper's parameters have been replaced by the call site's types, a trait method called on a parameter (`child.into()` with
    `T: Into<Node>`) has a known receiver type: point it at the crate's own implementation, as the compiler does for code that is not generic"""
    impls = {}
    for p_, g in bodies.items():
        if g.get("impl_trait") and g.get("impl_self"):
            impls.setdefault((g["impl_trait"], g["impl_self"], p_.rsplit("::", 1)[-1]), []).append(p_)
    for blk in b["blocks"][boff:]:
        t = blk["term"]
        fn = callee_of(t) if t and t["k"] == "call" else None
        if fn is None or not fn.get("trait") or fn.get("resolved_local"):
            continue
        cands = impls.get((fn["trait"], fn.get("self_ty"), fn.get("name")), [])
        if len(cands) == 1:
            fn.update({"resolved": cands[0], "resolved_krate": fn.get("krate"), "resolved_local": True, "resolved_kind": "Item"})


def inline_unknown(data, bodies, known, log):
    unknown = [p for p, g in bodies.items() if p not in known and not is_closure(g) and g.get("kind") in ("Fn", "AssocFn") and not g.get("derived")
               and not reaches_itself(p, bodies, known=known)]
    unknown = set(unknown)
    if not unknown:
        return set()
    spliced = set()
    for _round in range(MAX_ROUNDS):
        any_change = False
        for b in data["bodies"]:
            again = True
            while again:
                again = False
                for bi, t, fn in list(calls_of(b)):
                    g = local_callee(fn, bodies)
                    if g is None or g["path"] not in unknown or g is b or len(t["args"]) != g["arg_count"]:
                        continue
                    if b["path"] in DISPATCHERS and g["arg_count"] == 1 and g["locals"][1]["ty"] == "solang_parser::pt::SourceUnit" \
                            and g["locals"][0]["ty"].startswith("std::collections::HashSet<solang_parser::pt::Loc"):
                        continue  # a new detector (parsed file -> set of locations) called from a dispatcher: it is a detector of its own, not a helper
                    if b["path"] in SECTION_DISPATCHERS and g["arg_count"] == 0 and g["locals"][0]["ty"] == "std::string::String":
                        continue  # likewise the section text of a new pattern
                    if b["blocks"][bi].get("cleanup"):
                        continue
                    loc = b["blocks"][bi]["tloc"]
                    loff, boff = len(b["locals"]), len(b["blocks"])
                    pro, entry = splice(b, g, [use(copy.deepcopy(a)) for a in t["args"]], t["dest"], t["t"], loc)
                    if g.get("_fold"):
                        b["_fold"] = True
                    gen = [x for x in (g.get("generics") or [])]
                    if gen and len(gen) == len(fn.get("gargs") or []):
                        mapping = {k: v for k, v in zip(gen, fn["gargs"]) if k != v and (re.match(r"^[A-Za-z_]\w*$", k) or k.startswith("impl "))}
                        if mapping:
                            instantiate(b, loff, boff, mapping)
                            resolve_trait_calls(b, boff, bodies)
                            b.setdefault("_generic_ranges", []).append((boff, len(b["blocks"]), mapping))
                            for st_ in pro:
                                if isinstance(st_.get("p"), dict) and isinstance(st_["p"].get("ty"), str):
                                    st_["p"]["ty"] = b["locals"][st_["p"]["l"]]["ty"]
                    oret = g["locals"][0]["ty"]
                    if oret.startswith("impl "):
                        # the helper hides its result type (`-> impl Iterator<..>`): inside the caller the value has the type the helper's body gives it
                        conc = concrete_return_type(g)
                        if conc and conc != oret and not conc.startswith("impl "):
                            instantiate_exact(b, oret, conc)
                    b["blocks"][bi]["stmts"] += pro
                    b["blocks"][bi]["term"] = goto(entry)
                    log.append("%s: call to new helper %s spliced in" % (b["path"], g["path"]))
                    spliced.add(g["path"])
                    again = True
                    any_change = True
                    break
        if not any_change:
            break
    # a helper is dropped when no call to it remains anywhere
    still = set()
    for b in data["bodies"]:
        if b["path"] in unknown:
            continue
        for _bi, _t, fn in calls_of(b):
            g = local_callee(fn, bodies)
            if g is not None and g["path"] in unknown:
                still.add(g["path"])
    return spliced - still


# ------------------------------------------------------------------ idioms


def rewrite_idioms(b, log):
    """spellings of one operation are mapped to the spelling the reference tree uses"""
    n = 0
    for blk in b["blocks"]:
        t = blk["term"]
        if t["k"] != "call":
            continue
        fn = callee_of(t)
        if fn is None:
            continue
        # s.push('c')  ==  s.push_str("c")
        if fn["path"] == "std::string::String::push" and len(t["args"]) == 2 and t["args"][1]["k"] == "const" and t["args"][1].get("ty") == "char" \
                and "int" in t["args"][1]:
            ch = chr(t["args"][1]["int"])
            t["f"] = fn_operand("std::string::String::push_str", [], impl_self="std::string::String")
            t["args"][1] = {"k": "const", "ty": "&str", "disp": json.dumps(ch), "str": ch}
            n += 1
    if n:
        log.append("%s: %d single-character push(es) written as push_str" % (b["path"], n))
    # write!(s, ..) / writeln!(s, ..) into a String  ==  s.push_str(&format!(..)), which cannot fail
    w_ = 0
    for bi in range(len(b["blocks"])):
        blk = b["blocks"][bi]
        t = blk["term"]
        if t is None or t["k"] != "call" or blk.get("cleanup") or t.get("t") is None:
            continue
        fn = callee_of(t)
        if fn is None or fn["path"] != "std::fmt::Write::write_fmt" or len(t["args"]) != 2 or (fn.get("gargs") or [""])[0] != "std::string::String":
            continue
        loc = blk["tloc"]
        s_l = new_local(b, "std::string::String")
        r_l = new_local(b, "&std::string::String")
        ig = new_local(b, "()")
        done_ = new_block(b, [assign(copy.deepcopy(t["dest"]), adt_agg("std::result::Result", "Ok", 0, [{"k": "const", "ty": "()", "disp": "()"}]), loc)], goto(t["t"]), loc)
        push = new_block(b, [assign(P(r_l), {"k": "ref", "mut": False, "fake": False, "p": P(s_l, ty="std::string::String")}, loc)],
                         call(fn_operand("std::string::String::push_str", [], impl_self="std::string::String"), [copy.deepcopy(t["args"][0]), mv(r_l)], P(ig), done_, loc), loc)
        blk["term"] = call(fn_operand("std::fmt::format", []), [copy.deepcopy(t["args"][1])], P(s_l, ty="std::string::String"), push, loc)
        w_ += 1
    if w_:
        log.append("%s: %d write!/writeln! into a String written as push_str(&format!(..))" % (b["path"], w_))
    # v.pop() on a list that nothing else looks at (bound by a pattern, popped once, dropped)  ==  v.last(), handed over by value
    k_ = 0
    for bi, blk in enumerate(b["blocks"]):
        t = blk["term"]
        if t["k"] != "call" or blk.get("cleanup"):
            continue
        fn = callee_of(t)
        if fn is None or fn["path"] != "std::vec::Vec::<T, A>::pop" or len(t["args"]) != 1:
            continue
        a = t["args"][0]
        if a["k"] not in ("move", "copy") or a["p"]["pr"]:
            continue
        d = single_def(b, a["p"]["l"])
        if not (d and d[0] == "rv" and d[3]["k"] == "ref" and d[3].get("mut") and not d[3]["p"]["pr"]):
            continue
        v = d[3]["p"]["l"]
        if v <= b.get("arg_count", 0):
            continue
        others = 0
        for bj, blk2 in enumerate(b["blocks"]):
            if blk2.get("cleanup"):
                continue
            for sj, st in enumerate(blk2["stmts"]):
                if st["k"] == "assign" and st["p"]["l"] == v and not st["p"]["pr"]:
                    acc = set()
                    locals_in(st["rv"], acc)
                    if v in acc:
                        others += 1
                    continue  # (its definition)
                if (bj, sj) == (d[1], d[2]):
                    continue  # (the borrow for the pop)
                acc = set()
                locals_in(st, acc)
                if v in acc:
                    others += 1
            t2 = blk2["term"]
            if t2 is not None and t2["k"] != "drop":
                acc = set()
                locals_in(t2, acc)
                if v in acc:
                    others += 1
        if others:
            continue
        # not inside a loop that does not also (re)define the list: one pop per list
        vdefs = [bj for bj, blk2 in enumerate(b["blocks"]) for st in blk2["stmts"] if st["k"] == "assign" and st["p"]["l"] == v and not st["p"]["pr"]]
        if len(vdefs) != 1 or bi not in dominated(b, vdefs[0]):
            continue
        region = dominated(b, vdefs[0])
        stack_, seen_, cyc = [x for x in succs(blk) if x in region], set(), False
        while stack_:
            x = stack_.pop()
            if x == bi:
                cyc = True
                break
            if x in seen_ or x not in region or x == vdefs[0]:
                continue
            seen_.add(x)
            stack_ += [y for y in succs(b["blocks"][x])]
        if cyc:
            continue
        t["f"] = fn_operand("core::slice::<impl [T]>::last", list(fn.get("gargs") or [])[:1], krate="core")
        k_ += 1
    if k_:
        log.append("%s: %d pop() of a list nothing else looks at written as last()" % (b["path"], k_))
    # HashSet::from([a, b]) / BTreeSet::from([..]) / Vec::from([..])  ==  new() followed by one insert / push per element
    m = 0
    for bi in range(len(b["blocks"])):
        blk = b["blocks"][bi]
        t = blk["term"]
        if t["k"] != "call" or blk.get("cleanup") or t.get("t") is None:
            continue
        fn = callee_of(t)
        if fn is None or fn["path"] != "std::convert::From::from" or len(t["args"]) != 1:
            continue
        dty = t["dest"].get("ty") or b["locals"][t["dest"]["l"]]["ty"]
        coll = None
        for (pre, new_, ins) in COLLECTIONS:
            if dty.startswith(pre):
                coll = (dty, new_, ins)
        a = t["args"][0]
        if coll is None or a["k"] not in ("move", "copy") or a["p"]["pr"]:
            continue
        dd = single_def(b, a["p"]["l"])
        if not (dd and dd[0] == "rv" and dd[3]["k"] == "agg" and dd[3].get("ak") == "array"):
            continue
        loc = blk["tloc"]
        acc = new_local(b, coll[0])
        cont, dest = t["t"], t["dest"]
        last = new_block(b, [assign(copy.deepcopy(dest), use(mv(acc, coll[0])), loc)], goto(cont), loc)
        nxt = last
        for o in reversed(dd[3]["ops"]):
            ra = new_local(b, "&mut " + coll[0])
            ig = new_local(b, "()")
            nb = new_block(b, [assign(P(ra), {"k": "ref", "mut": True, "fake": False, "p": P(acc, ty=coll[0])}, loc)],
                           call(fn_operand(coll[2], []), [mv(ra), copy.deepcopy(o)], P(ig), nxt, loc), loc)
            nxt = nb
        blk["term"] = call(fn_operand(coll[1], []), [], P(acc, ty=coll[0]), nxt, loc)
        m += 1
    if m:
        log.append("%s: %d collection(s) built from an array literal written as new() + insert" % (b["path"], m))


# ------------------------------------------------------------------ calls through function values


def resolve_fn_value(b, o, depth=0):
    """the function item a call operand denotes, following copies, references, closure captures and fn-pointer coercions (single definitions only)"""
    if depth > 12:
        return None
    if o["k"] == "const":
        return o if "fn" in o else None
    if o["k"] not in ("move", "copy"):
        return None
    pr = [e for e in o["p"]["pr"] if e != "deref"]
    d = single_def(b, o["p"]["l"])
    if d is None or d[0] != "rv":
        return None
    rv = d[3]
    if rv["k"] == "use" and rv["o"]["k"] in ("move", "copy"):
        return resolve_fn_value(b, {"k": "copy", "p": {"l": rv["o"]["p"]["l"], "pr": list(rv["o"]["p"]["pr"]) + pr, "ty": ""}}, depth + 1)
    if rv["k"] == "use" and not pr:
        return resolve_fn_value(b, rv["o"], depth + 1)
    if rv["k"] == "ref":
        return resolve_fn_value(b, {"k": "copy", "p": {"l": rv["p"]["l"], "pr": list(rv["p"]["pr"]) + pr, "ty": ""}}, depth + 1)
    if rv["k"] == "cast" and "ReifyFnPointer" in rv.get("ck", "") and not pr:
        return resolve_fn_value(b, rv["o"], depth + 1)
    if rv["k"] == "agg" and rv.get("ak") in ("closure", "tuple") and pr and isinstance(pr[0], dict) and "f" in pr[0] and pr[0]["f"] < len(rv["ops"]):
        inner = rv["ops"][pr[0]["f"]]
        if inner["k"] in ("move", "copy"):
            return resolve_fn_value(b, {"k": "copy", "p": {"l": inner["p"]["l"], "pr": list(inner["p"]["pr"]) + pr[1:], "ty": ""}}, depth + 1)
        return resolve_fn_value(b, inner, depth + 1) if len(pr) == 1 else None
    return None


def devirtualise(b, log):
    n = 0
    for blk in b["blocks"]:
        t = blk["term"]
        if t["k"] != "call" or blk.get("cleanup"):
            continue
        f = t["f"]
        if f["k"] in ("move", "copy"):
            r = resolve_fn_value(b, f)
            if r is not None:
                t["f"] = copy.deepcopy(r)
                n += 1
    if n:
        log.append("%s: %d call(s) through a function value resolved to the function" % (b["path"], n))


def devirtualise_choice(b, log):
    """a call through a function value that was chosen among function items on the way (`let f = match kind { A => fa, B => fb }; f(x)`): the choice is
    remembered in a tag next to the value and the call becomes one direct call per choice, selected by the tag - the same calls the same paths make"""
    n = 0
    for bi in range(len(b["blocks"])):
        blk = b["blocks"][bi]
        t = blk["term"]
        if t is None or t["k"] != "call" or blk.get("cleanup") or t.get("t") is None:
            continue
        f = t["f"]
        if f["k"] not in ("move", "copy") or f["p"]["pr"]:
            continue
        F = f["p"]["l"]
        for _hop in range(6):
            d = single_def(b, F)
            if d and d[0] == "rv" and d[3]["k"] == "use" and d[3]["o"]["k"] in ("move", "copy") and not d[3]["o"]["p"]["pr"]:
                F = d[3]["o"]["p"]["l"]
            else:
                break
        if F <= b.get("arg_count", 0):
            continue
        defs = []
        ok = True
        for bj, blk2 in enumerate(b["blocks"]):
            if blk2.get("cleanup"):
                continue
            for sj, st in enumerate(blk2["stmts"]):
                if st["k"] == "assign" and st["p"]["l"] == F:
                    if st["p"]["pr"]:
                        ok = False
                        continue
                    rv = st["rv"]
                    item = None
                    if rv["k"] == "use":
                        item = resolve_fn_value(b, rv["o"])
                    elif rv["k"] == "cast" and "ReifyFnPointer" in rv.get("ck", ""):
                        item = resolve_fn_value(b, rv["o"])
                    if item is None:
                        ok = False
                    defs.append((bj, sj, item))
            t2 = blk2["term"]
            if t2 is not None and t2["k"] == "call" and t2["dest"]["l"] == F:
                ok = False
        if not ok or len(defs) < 2 or len(defs) > 40:
            continue
        # F must not be written through a reference: any `&mut F` disqualifies
        refd = False
        for blk2 in b["blocks"]:
            for st in blk2["stmts"]:
                if st["k"] == "assign" and st["rv"]["k"] == "ref" and st["rv"]["p"]["l"] == F and st["rv"].get("mut"):
                    refd = True
        if refd:
            continue
        loc = blk["tloc"]
        # the choice was made by the arms of one match: find its switch and the value it tested
        preds = {}
        live_ = dominated(b, 0)
        for bj, blk2 in enumerate(b["blocks"]):
            if blk2.get("cleanup") or blk2["term"] is None or bj not in live_:
                continue
            for x in succs(blk2):
                preds.setdefault(x, []).append(bj)
        S0 = None
        labels = []
        for (bj, _sj, _item) in defs:
            cur = bj
            for _hop in range(4):
                ps = preds.get(cur, [])
                if len(set(ps)) == 1 and b["blocks"][ps[0]]["term"]["k"] == "goto" and not b["blocks"][ps[0]]["stmts"]:
                    cur = ps[0]
                else:
                    break
            ps = set(preds.get(cur, []))
            if len(ps) != 1:
                S0 = None
                break
            s0 = ps.pop()
            t0 = b["blocks"][s0]["term"]
            if t0["k"] != "switch" or (S0 is not None and s0 != S0):
                S0 = None
                break
            S0 = s0
            vs = [v for (v, x) in t0["ts"] if x == cur]
            labels.append((vs, t0["else"] == cur))
        if S0 is None or bi not in dominated(b, S0) or len(set(bj for (bj, _s, _i) in defs)) != len(defs):
            continue
        t0 = b["blocks"][S0]["term"]
        if sum(1 for (_vs, e_) in labels if e_) > 1 or any(not vs and not e_ for (vs, e_) in labels) or t0["d"]["k"] not in ("move", "copy") or t0["d"]["p"]["pr"]:
            continue
        dl = t0["d"]["p"]["l"]
        dst = [st for st in b["blocks"][S0]["stmts"] if st["k"] == "assign" and st["p"]["l"] == dl and not st["p"]["pr"]]
        if len(dst) != 1 or dst[0]["rv"]["k"] != "discr" or single_def(b, dl) is None:
            continue
        subject = dst[0]["rv"]["p"]
        if any(e != "deref" for e in subject["pr"]):
            continue
        L = subject["l"]
        # the tested value must still be what it was: it is defined once and nothing but tests of its variant looks at it
        occurrences = 0
        for blk2 in b["blocks"]:
            if blk2.get("cleanup"):
                continue
            for st in blk2["stmts"]:
                acc = set()
                locals_in(st, acc)
                if L in acc and not (st["k"] == "assign" and st["rv"]["k"] == "discr" and st["rv"]["p"]["l"] == L and st["p"]["l"] != L):
                    occurrences += 1
            acc = set()
            locals_in(blk2["term"], acc)
            if L in acc and blk2["term"]["k"] != "drop":
                occurrences += 2
        if occurrences != (0 if L <= b.get("arg_count", 0) else 1):
            continue
        d2 = new_local(b, b["locals"][dl]["ty"])
        blk["stmts"].append(assign(P(d2, ty=b["locals"][dl]["ty"]), {"k": "discr", "p": copy.deepcopy(subject)}, loc))
        targets, other = [], None
        for k, (_bj, _sj, item) in enumerate(defs):
            cb = new_block(b, [], call(copy.deepcopy(item), copy.deepcopy(t["args"]), copy.deepcopy(t["dest"]), t["t"], loc), loc)
            b["blocks"][cb]["term"]["cleanup"] = t.get("cleanup")
            for v in labels[k][0]:
                targets.append([v, cb])
            if labels[k][1]:
                other = cb
        if other is None:
            other = new_block(b, [], {"k": "unreachable"}, loc)
        blk["term"] = {"k": "switch", "d": mv(d2), "dty": t0["dty"], "ts": sorted(targets, key=lambda x: x[0]), "else": other}
        n += 1
    if n:
        log.append("%s: %d call(s) through a chosen function value written as one direct call per choice of the match that chose it" % (b["path"], n))


# ------------------------------------------------------------------ named constants


def monomorphise_uniform_generics(data, log):
    """a generic function of the crate all of whose calls (in this crate) pass the same type arguments is, for this program, the function with those
    types: `fn slots(sizes: impl IntoIterator<Item = u16>)` called with `Vec<u16>` twice loops over a `vec::IntoIter<u16>`"""
    bodies = {b["path"]: b for b in data["bodies"]}
    uses = {}
    for b in data["bodies"]:
        for _bi, _t, fn in calls_of(b):
            g = local_callee(fn, bodies)
            if g is not None and g.get("generics") and g is not b:
                uses.setdefault(g["path"], []).append(list(fn.get("gargs") or []))
    n = 0
    for path, lists in sorted(uses.items()):
        g = bodies[path]
        gen = list(g.get("generics") or [])
        if not gen or any(len(l) != len(gen) for l in lists) or any(l != lists[0] for l in lists):
            continue
        args = lists[0]
        # concrete arguments only (a caller that is generic itself hands on its own parameters)
        if any(re.match(r"^[A-Z]\w*$", a) or a.startswith("impl ") or re.search(r"(?<![\w:])[A-Z]\b(?!\w|::)", a) for a in args):
            continue
        mapping = {k: v for k, v in zip(gen, args) if k != v and (re.match(r"^[A-Za-z_]\w*$", k) or k.startswith("impl "))}
        if not mapping:
            continue
        instantiate(g, 0, 0, mapping)
        resolve_trait_calls(g, 0, bodies)
        g["generics"] = []
        n += 1
        log.append("%s: generic over %s, always called with %s: read with those types" % (path, ", ".join(gen), ", ".join(args)))
    return n


def explicit_known_variants(b, log):
    """`if a.is_some() { a } else { b }`: on the branch taken when `a.is_some()` holds, the value handed on is `Some(a's payload)` - said so, for the
    tests of the result that follow (the same fact `a.or(b)` states directly)"""
    n = 0
    preds = {}
    for i, blk in enumerate(b["blocks"]):
        if blk.get("cleanup") or blk["term"] is None:
            continue
        for t in succs(blk):
            preds.setdefault(t, []).append(i)
    for bi, blk in enumerate(b["blocks"]):
        t = blk["term"]
        if t is None or t["k"] != "call" or blk.get("cleanup") or t.get("t") is None:
            continue
        fn = callee_of(t)
        if fn is None or fn["path"] not in ("std::option::Option::<T>::is_some", "std::option::Option::<T>::is_none") or len(t["args"]) != 1 or t["dest"]["pr"]:
            continue
        a = t["args"][0]
        if a["k"] not in ("move", "copy") or a["p"]["pr"]:
            continue
        d = single_def(b, a["p"]["l"])
        if not (d and d[0] == "rv" and d[3]["k"] == "ref" and not d[3]["p"]["pr"] and not d[3].get("mut")):
            continue
        x = d[3]["p"]["l"]
        nb = b["blocks"][t["t"]]
        sw = nb["term"]
        if nb["stmts"] or sw is None or sw["k"] != "switch" or sw["d"]["k"] not in ("move", "copy") or sw["d"]["p"]["l"] != t["dest"]["l"] or sw.get("dty") != "bool":
            continue
        yes = sw["else"] if fn["path"].endswith("is_some") else [x_ for (v_, x_) in sw["ts"] if v_ == 0][0] if [x_ for (v_, x_) in sw["ts"] if v_ == 0] else None
        if yes is None or preds.get(yes, []) != [t["t"]]:
            continue
        oty = b["locals"][x]["ty"]
        if not oty.startswith("std::option::Option<"):
            continue
        inner = oty[len("std::option::Option<"):-1]
        for st in b["blocks"][yes]["stmts"]:
            if st["k"] != "assign":
                break
            acc = set()
            locals_in(st, acc)
            if x not in acc:
                continue
            rv = st["rv"]
            if rv["k"] == "use" and rv["o"]["k"] == "move" and rv["o"]["p"]["l"] == x and not rv["o"]["p"]["pr"] and not st["p"]["pr"] \
                    and single_def(b, st["p"]["l"]) is None:  # (a value that another branch defines too: `x.unwrap()` right after the test stays as written)
                st["rv"] = adt_agg("std::option::Option", "Some", 1, [{"k": "move", "p": P(x, [{"dc": "Some"}, {"f": 0, "n": "0"}], inner)}])
                n += 1
            break  # (only the first thing done with it on that branch)
    if n:
        log.append("%s: %d value(s) handed on under `is_some()` written as Some(payload)" % (b["path"], n))


def call_computed_consts(data, ref_fns, log):
    """`const V0_8_4: Version = Version::new(0, 8, 4);` - a constant the reference tree does not have whose value is computed by calling functions of the
    crate: a use of it is a call of its (parameterless) initialiser, which the splicing of new helpers then writes out"""
    items = {}
    for b in data["bodies"]:
        if str(b.get("kind", "")).startswith(("Const", "AssocConst")) and b.get("arg_count") == 0 and b["path"] not in ref_fns:
            live = [blk for blk in b["blocks"] if not blk.get("cleanup")]
            calls = [blk["term"] for blk in live if blk["term"] is not None and blk["term"]["k"] == "call"]
            if calls and len(live) <= 6 and all((callee_of(t) or {}).get("local") or (callee_of(t) or {}).get("resolved_local") for t in calls) \
                    and all(blk["term"] is not None and blk["term"]["k"] in ("call", "return", "goto") for blk in live):
                items[b["path"]] = b
    if not items:
        return
    n = 0
    for b in data["bodies"]:
        if b["path"] in items:
            continue
        bi = 0
        while bi < len(b["blocks"]):
            blk = b["blocks"][bi]
            if blk.get("cleanup"):
                bi += 1
                continue
            for si, st in enumerate(blk["stmts"]):
                if st["k"] == "assign" and st["rv"]["k"] == "use" and st["rv"]["o"]["k"] == "const" and st["rv"]["o"].get("disp") in items \
                        and "str" not in st["rv"]["o"] and "int" not in st["rv"]["o"] and "fn" not in st["rv"]["o"]:
                    path = st["rv"]["o"]["disp"]
                    loc = st.get("loc") or blk["tloc"]
                    rest = new_block(b, blk["stmts"][si + 1:], blk["term"], blk["tloc"])
                    blk["stmts"] = blk["stmts"][:si]
                    blk["term"] = call(fn_operand(path, [], krate=data.get("crate"), local=True, resolved_local=True, resolved_krate=data.get("crate"), kind="Fn"),
                                       [], copy.deepcopy(st["p"]), rest, loc)
                    n += 1
                    break
            bi += 1
    for g in items.values():
        g["kind"] = "Fn"  # (called like a function from here on)
    if n:
        log.append("%d use(s) of constants computed by calling crate functions written as a call of their initialiser" % n)


def resolve_named_consts(data, log):
    """`const NAME: &str = "lit";` — uses of NAME are replaced by the literal (MIR refers to the item by path)"""
    lits = {}
    for b in data["bodies"]:
        if not str(b.get("kind", "")).startswith("Const") or len(b["blocks"]) != 1 or b["arg_count"] != 0:
            continue
        st = b["blocks"][0]["stmts"]
        if len(st) == 1 and st[0]["k"] == "assign" and st[0]["p"]["l"] == 0 and not st[0]["p"]["pr"] and st[0]["rv"]["k"] == "use" \
                and st[0]["rv"]["o"]["k"] == "const" and ("str" in st[0]["rv"]["o"] or "int" in st[0]["rv"]["o"]) and b["blocks"][0]["term"]["k"] == "return":
            lits[b["path"]] = st[0]["rv"]["o"]
    # arrays of literals (`const NAMES: [&str; 4] = [..]`): a statement `x = NAME` becomes `x = [..]`
    arrs = {}
    for b in data["bodies"]:
        if not str(b.get("kind", "")).startswith("Const") or len(b["blocks"]) != 1 or b["arg_count"] != 0:
            continue
        st = b["blocks"][0]["stmts"]
        if len(st) == 1 and st[0]["k"] == "assign" and st[0]["p"]["l"] == 0 and not st[0]["p"]["pr"] and st[0]["rv"]["k"] == "agg" \
                and st[0]["rv"].get("ak") == "array" and all(o["k"] == "const" for o in st[0]["rv"]["ops"]) and b["blocks"][0]["term"]["k"] == "return":
            arrs[b["path"]] = st[0]["rv"]
    # arrays whose elements are built first (`const KINDS: [Target; 3] = [Target::A, Target::B, ..]`: one temporary per element, each a field-less variant or
    # a literal, then the array of them): a statement `x = NAME` becomes the same temporaries followed by `x = [..]`
    built = {}
    for b in data["bodies"]:
        if not str(b.get("kind", "")).startswith("Const") or len(b["blocks"]) != 1 or b["arg_count"] != 0 or b["path"] in arrs:
            continue
        st = b["blocks"][0]["stmts"]
        if len(st) < 2 or b["blocks"][0]["term"]["k"] != "return":
            continue
        last = st[-1]
        if not (last["k"] == "assign" and last["p"]["l"] == 0 and not last["p"]["pr"] and last["rv"]["k"] == "agg" and last["rv"].get("ak") == "array"):
            continue
        # every statement before it builds a temporary out of literals, variants, tuples and earlier temporaries (no calls, no reads of anything else)
        defined = set()
        ok = True
        for e in st[:-1]:
            if e["k"] in ("storage_live", "storage_dead", "nop", "live", "dead"):
                continue
            if not (e["k"] == "assign" and not e["p"]["pr"] and e["p"]["l"] not in defined and e["p"]["l"] != 0):
                ok = False
                break
            rv = e["rv"]
            if rv["k"] == "agg" and rv.get("ak") in ("adt", "tuple", "array"):
                opsx = rv["ops"]
            elif rv["k"] == "use":
                opsx = [rv["o"]]
            else:
                ok = False
                break
            for o in opsx:
                if o["k"] == "const":
                    continue
                if o["k"] in ("move", "copy") and not o["p"]["pr"] and o["p"]["l"] in defined:
                    continue
                ok = False
            if not ok:
                break
            defined.add(e["p"]["l"])
        ops = last["rv"]["ops"]
        if not ok or not all(o["k"] == "const" or (o["k"] in ("move", "copy") and not o["p"]["pr"] and o["p"]["l"] in defined) for o in ops):
            continue
        built[b["path"]] = ([e for e in st[:-1] if e["k"] == "assign"], last["rv"], b["locals"])
    nb = 0
    if built:
        for b in data["bodies"]:
            if str(b.get("kind", "")).startswith("Const"):
                continue
            for blk in b["blocks"]:
                i = 0
                while i < len(blk["stmts"]):
                    st = blk["stmts"][i]
                    if st["k"] == "assign" and st["rv"]["k"] == "use" and st["rv"]["o"]["k"] == "const" and st["rv"]["o"].get("disp") in built \
                            and "str" not in st["rv"]["o"] and "int" not in st["rv"]["o"] and "fn" not in st["rv"]["o"]:
                        stmts_, arr, clocals = built[st["rv"]["o"]["disp"]]
                        lmap = {}
                        pre = []
                        for e in stmts_:
                            nl = new_local(b, clocals[e["p"]["l"]]["ty"])
                            lmap[e["p"]["l"]] = nl
                        for e in stmts_:
                            ne = rename(e, lmap, {})
                            ne["loc"] = st["loc"]
                            pre.append(ne)
                        st["rv"] = rename(arr, lmap, {})
                        blk["stmts"][i:i] = pre
                        i += len(pre)
                        nb += 1
                    i += 1
        if nb:
            log.append("%d use(s) of named constant arrays built from variants / tuples replaced by the array literal" % nb)
    na = 0
    if arrs:
        for b in data["bodies"]:
            for blk in b["blocks"]:
                for st in blk["stmts"]:
                    if st["k"] == "assign" and st["rv"]["k"] == "use" and st["rv"]["o"]["k"] == "const" and st["rv"]["o"].get("disp") in arrs \
                            and "str" not in st["rv"]["o"] and "int" not in st["rv"]["o"] and "fn" not in st["rv"]["o"]:
                        st["rv"] = copy.deepcopy(arrs[st["rv"]["o"]["disp"]])
                        na += 1
        if na:
            log.append("%d use(s) of named constant arrays replaced by the array literal" % na)
    if not lits:
        return
    n = [0]

    def walk(x):
        if isinstance(x, list):
            for i, v in enumerate(x):
                if isinstance(v, dict) and v.get("k") == "const" and "str" not in v and "int" not in v and "fn" not in v and v.get("disp") in lits:
                    x[i] = copy.deepcopy(lits[v["disp"]])
                    n[0] += 1
                else:
                    walk(v)
        elif isinstance(x, dict):
            for key, v in list(x.items()):
                if isinstance(v, dict) and v.get("k") == "const" and "str" not in v and "int" not in v and "fn" not in v and v.get("disp") in lits:
                    x[key] = copy.deepcopy(lits[v["disp"]])
                    n[0] += 1
                else:
                    walk(v)

    for b in data["bodies"]:
        walk(b["blocks"])
    if n[0]:
        log.append("%d use(s) of named literal constants replaced by their value" % n[0])


# ------------------------------------------------------------------ jump threading


PLAIN_UNIT_VARIANTS = set()  # (enum path, variant index) of the crate's field-less variants whose discriminant value is the variant index


def _simple_assigns(blk):
    return all(st["k"] == "assign" for st in blk["stmts"])


def thread_bool_jumps(b, log):
    """Temporaries that are set on several paths and then tested (`matches!(..) || ..`, a spliced helper returning `a && !b`, a spliced closure
    returning `Some(x)` / `None` to a filter_map):

        X: .. t = const; goto J      J: r = move t; goto S      S: switch r          (or  d = discriminant(r); switch d)

    A predecessor X along which the tested value is known (a boolean constant, or an Option / Result built with a known variant) gets its own copy
    of the J..S chain, ending in a goto to the target that the value selects. If only some predecessors are constant, the locals carrying the
    constant are renamed in the copy (and must not be read elsewhere), so that what stays in the original chain is defined on the remaining paths
    only; if all are, nothing needs renaming because the original test is no longer reached."""
    n = 0
    # empty forwarding blocks (`bbK: goto bbL`) are skipped: whoever jumps to bbK jumps to bbL
    def final(tg, depth=0):
        while depth < 50:
            bk = b["blocks"][tg]
            if bk["stmts"] or bk.get("cleanup") or bk["term"] is None or bk["term"]["k"] != "goto" or bk["term"]["t"] == tg:
                return tg
            tg = bk["term"]["t"]
            depth += 1
        return tg
    for blk in b["blocks"]:
        tm = blk["term"]
        if tm is None or blk.get("cleanup"):
            continue
        if tm["k"] in ("goto", "drop", "assert") or (tm["k"] == "call" and tm.get("t") is not None):
            tm["t"] = final(tm["t"])
        elif tm["k"] == "switch":
            tm["ts"] = [[v, final(x)] for (v, x) in tm["ts"]]
            tm["else"] = final(tm["else"])
    for _round in range(80):
        live = set()
        st_ = [0]
        while st_:
            x_ = st_.pop()
            if x_ in live or b["blocks"][x_]["term"] is None:
                continue
            live.add(x_)
            st_.extend(succs(b["blocks"][x_]))
        preds = {}
        for i, blk in enumerate(b["blocks"]):
            if blk.get("cleanup") or i not in live:
                continue
            for t in succs(blk):
                preds.setdefault(t, []).append(i)
        uses = {}  # local -> blocks that READ it (whole-local assignment targets do not count)
        for i, blk in enumerate(b["blocks"]):
            if blk.get("cleanup") or i not in live:
                continue
            acc = set()
            for st in blk["stmts"]:
                if st["k"] == "assign" and not st["p"]["pr"]:
                    locals_in(st["rv"], acc)
                else:
                    locals_in(st, acc)
            tm = blk["term"]
            if tm["k"] == "call" and not tm["dest"]["pr"]:
                locals_in(tm["f"], acc)
                locals_in(tm["args"], acc)
            else:
                locals_in(tm, acc)
            for l in acc:
                uses.setdefault(l, set()).add(i)
        did = False
        for si, S_ in enumerate(b["blocks"]):
            t = S_["term"]
            if S_.get("cleanup") or t["k"] != "switch" or not _simple_assigns(S_):
                continue
            d = t["d"]
            if d["k"] not in ("move", "copy") or d["p"]["pr"]:
                continue
            chain = [si]
            cur = si
            while len(preds.get(cur, [])) == 1:
                p = preds[cur][0]
                pb = b["blocks"][p]
                if pb["term"]["k"] not in ("goto", "drop") or not _simple_assigns(pb) or p in chain or len(chain) > 8:
                    break
                chain.insert(0, p)
                cur = p
            # joins further up: a predecessor of the join that is itself a simple forwarding block with several predecessors
            candidates = [list(chain)]
            def fwd(p_):
                bk_ = b["blocks"][p_]
                return bk_["term"]["k"] in ("goto", "drop") and _simple_assigns(bk_) and not bk_.get("cleanup")

            for _depth in range(3):
                j0 = candidates[-1][0]
                ext = []
                for p in preds.get(j0, []):
                    if not fwd(p) or p in candidates[-1]:
                        continue
                    path_ = [p]
                    cur_ = p
                    while len(preds.get(cur_, [])) == 1 and fwd(preds[cur_][0]) and preds[cur_][0] not in path_ and len(path_) < 6:
                        cur_ = preds[cur_][0]
                        path_.insert(0, cur_)
                    if len(preds.get(cur_, [])) >= 2 and any(b["blocks"][x_]["stmts"] for x_ in path_):
                        ext.append(path_)
                if len(ext) != 1:
                    break
                candidates.append(ext[0] + candidates[-1])
            chain = None
            for cand in reversed(candidates):  # the join closest to the definitions first
                ps_ = preds.get(cand[0], [])
                if len(ps_) >= 2 and len(set(ps_)) == len(ps_) and all(b["blocks"][p]["term"]["k"] in ("goto", "drop") for p in ps_):
                    chain = cand
                    break
            if chain is None and len(preds.get(candidates[0][0], [])) == 1:
                # the only way in is a statement-free forwarding block that is itself a join
                p1 = preds[candidates[0][0]][0]
                if not b["blocks"][p1]["stmts"] and b["blocks"][p1]["term"]["k"] in ("goto", "drop") and len(preds.get(p1, [])) >= 2:
                    chain = candidates[0]
            if chain is None:
                # no join: the tested value may still be a constant along the only way in (`x = None; .. match x`): fold the test
                chain = candidates[0]
                env_ = {}
                okc = True
                for c in chain:
                    for st in b["blocks"][c]["stmts"]:
                        l = st["p"]["l"]
                        rv = st["rv"]
                        if st["p"]["pr"]:
                            env_.pop(l, None)
                        elif rv["k"] == "use" and rv["o"]["k"] == "const" and rv["o"].get("ty") == "bool" and "int" in rv["o"]:
                            env_[l] = ("int", rv["o"]["int"])
                        elif rv["k"] == "use" and rv["o"]["k"] in ("move", "copy") and not rv["o"]["p"]["pr"] and rv["o"]["p"]["l"] in env_:
                            env_[l] = env_[rv["o"]["p"]["l"]]
                        elif rv["k"] == "agg" and rv.get("ak") == "adt" and (rv.get("adt") in ("std::option::Option", "std::result::Result", "std::ops::ControlFlow")
                                                                              or (not rv.get("ops") and (rv.get("adt"), rv.get("vi")) in PLAIN_UNIT_VARIANTS)):
                            env_[l] = ("variant", rv["vi"])
                        elif rv["k"] == "ref" and not rv["p"]["pr"] and rv["p"]["l"] in env_:
                            env_[l] = env_[rv["p"]["l"]]
                        elif rv["k"] == "discr" and all(e == "deref" for e in rv["p"]["pr"]) and env_.get(rv["p"]["l"], ("", 0))[0] == "variant":
                            env_[l] = ("int", env_[rv["p"]["l"]][1])
                        else:
                            env_.pop(l, None)
                r_ = env_.get(d["p"]["l"])
                if r_ is not None and r_[0] == "int" and len(chain) > 1:
                    tgt = t["else"]
                    for (v, bb) in t["ts"]:
                        if v == r_[1]:
                            tgt = bb
                    S_["term"] = goto(tgt)
                    n += 1
                    did = True
                    break
                continue
            J = chain[0]
            ps = []
            for p0 in preds.get(J, []):
                # look through statement-free forwarding blocks (a scope-end drop between the definition and the join)
                stack_ = [p0]
                seen_ = set()
                while stack_:
                    q = stack_.pop()
                    if q in seen_:
                        continue
                    seen_.add(q)
                    bq = b["blocks"][q]
                    if not bq["stmts"] and bq["term"]["k"] in ("goto", "drop") and q not in chain and len(seen_) < 8 and preds.get(q):
                        stack_.extend(preds[q])
                    else:
                        ps.append(q)
            if len(ps) < 2 or len(set(ps)) != len(ps) or any(b["blocks"][p]["term"]["k"] not in ("goto", "drop") for p in ps):
                continue
            chain_assigned = set()
            for c in chain:
                for st in b["blocks"][c]["stmts"]:
                    chain_assigned.add(st["p"]["l"])

            def const_along(x):
                """(kind, value, carriers) of the tested local at S when coming from x; kind 'int' for a switch value"""
                env = {}
                for blk_i in [x] + chain:
                    for st in b["blocks"][blk_i]["stmts"]:
                        if st["k"] != "assign":
                            return None
                        l = st["p"]["l"]
                        if st["p"]["pr"]:
                            env.pop(l, None)
                            continue
                        rv = st["rv"]
                        if rv["k"] == "use" and rv["o"]["k"] == "const" and rv["o"].get("ty") == "bool" and "int" in rv["o"]:
                            env[l] = ("int", rv["o"]["int"], {l})
                        elif rv["k"] == "use" and rv["o"]["k"] in ("move", "copy") and not rv["o"]["p"]["pr"] and rv["o"]["p"]["l"] in env:
                            k_, v, carriers = env[rv["o"]["p"]["l"]]
                            env[l] = (k_, v, carriers | {l})
                        elif rv["k"] == "agg" and rv.get("ak") == "adt" and (rv.get("adt") in ("std::option::Option", "std::result::Result", "std::ops::ControlFlow")
                                                                              or (not rv.get("ops") and (rv.get("adt"), rv.get("vi")) in PLAIN_UNIT_VARIANTS)):
                            env[l] = ("variant", rv["vi"], {l})
                        elif rv["k"] == "ref" and not rv["p"]["pr"] and rv["p"]["l"] in env:
                            k_, v, carriers = env[rv["p"]["l"]]
                            env[l] = (k_, v, carriers | {l})  # a reference to the value: reading through it reads the value
                        elif rv["k"] == "discr" and all(e == "deref" for e in rv["p"]["pr"]) and rv["p"]["l"] in env and env[rv["p"]["l"]][0] == "variant":
                            k_, v, carriers = env[rv["p"]["l"]]
                            env[l] = ("int", v, carriers | {l})
                        else:
                            env.pop(l, None)
                r = env.get(d["p"]["l"])
                return r if r is not None and r[0] == "int" else None

            vals = {}
            for x in ps:
                xb = b["blocks"][x]
                if xb.get("cleanup") or not xb["stmts"]:
                    continue
                r = const_along(x)
                if r is not None:
                    vals[x] = r
            if not vals:
                continue
            all_const = len(vals) == len(ps)
            for x, (_k, val, carriers) in vals.items():
                xb = b["blocks"][x]
                lmap = {}
                tgt = t["else"]
                for (v, bb) in t["ts"]:
                    if v == val:
                        tgt = bb
                region = []
                allowed = set(chain) | set(ps)
                if any(not (uses.get(l, set()) <= allowed) for l in carriers) and preds.get(tgt, []) == [si] and tgt not in allowed:
                    # the tested value is looked at again where the test leads (`Some(x) => x`): that part, as far as only this way leads
                    # there, is copied along with the chain, so that what it reads is what this path put there
                    reg = dominated(b, tgt)
                    if len(reg) <= OR_PATTERN_BODY_LIMIT and not (reg & allowed):
                        region = sorted(reg)
                        allowed |= reg
                        # (what the test's other outcomes lead to alone is reached from the original test only: it goes on reading the original)
                        for (_v2, t2_) in list(t["ts"]) + [[None, t["else"]]]:
                            if t2_ != tgt and preds.get(t2_, []) == [si] and t2_ not in allowed:
                                reg2 = dominated(b, t2_)
                                if len(reg2) <= OR_PATTERN_BODY_LIMIT:
                                    allowed |= reg2
                if not all_const or region:
                    # (what else the chain assigns - a borrow, a closure built for later - is assigned the same in the copy: one value, two places)
                    carriers = set(carriers) | set(l for l in chain_assigned if uses.get(l, set()) <= allowed)
                    if region:
                        # what the copied part computes for itself is its own as well
                        inside_defs, outside_defs = set(), set()
                        for i_, blk_ in enumerate(b["blocks"]):
                            if blk_.get("cleanup") or i_ not in live:
                                continue
                            tgt_set = inside_defs if i_ in region else outside_defs
                            for st_ in blk_["stmts"]:
                                if st_["k"] == "assign":
                                    tgt_set.add(st_["p"]["l"])
                            if blk_["term"]["k"] == "call":
                                tgt_set.add(blk_["term"]["dest"]["l"])
                        carriers |= set(l for l in inside_defs - outside_defs if uses.get(l, set()) <= allowed and l > b["arg_count"])
                    if any(not (uses.get(l, set()) <= allowed) for l in carriers) or any(l <= b["arg_count"] for l in carriers):
                        if not all_const:
                            continue
                        carriers, region = set(), []
                    for l in sorted(carriers):
                        b["locals"].append(copy.deepcopy(b["locals"][l]))
                        lmap[l] = len(b["locals"]) - 1
                bmap = {c: len(b["blocks"]) + k for k, c in enumerate(list(chain) + region)}
                for c in chain:
                    nb = rename(b["blocks"][c], lmap, bmap)
                    if c == si:
                        nb["term"] = goto(bmap.get(tgt, tgt))
                    b["blocks"].append(nb)
                for c in region:
                    b["blocks"].append(rename(b["blocks"][c], lmap, bmap))
                if lmap:
                    xb["stmts"] = rename(xb["stmts"], lmap, {})
                xb["term"] = goto(bmap[J])
                n += 1
                did = True
                if not all_const:
                    break
            if did:
                break
        if not did:
            break
    if n:
        log.append("%s: %d constant-condition path(s) threaded past their test" % (b["path"], n))


# ------------------------------------------------------------------ or-patterns


def succs(blk):
    t = blk["term"]
    k = t["k"]
    if k == "goto":
        return [t["t"]]
    if k == "switch":
        return [bb for (_v, bb) in t["ts"]] + [t["else"]]
    if k in ("drop", "assert"):
        return [t["t"]]
    if k == "call":
        return [t["t"]] if t["t"] is not None else []
    return []


def locals_in(x, acc):
    if isinstance(x, list):
        for v in x:
            locals_in(v, acc)
    elif isinstance(x, dict):
        if "l" in x and "pr" in x:
            acc.add(x["l"])
            for e in x["pr"]:
                if isinstance(e, dict) and isinstance(e.get("ix"), int):
                    acc.add(e["ix"])
            return
        for v in x.values():
            locals_in(v, acc)


def rename(x, lmap, bmap):
    if isinstance(x, list):
        return [rename(v, lmap, bmap) for v in x]
    if not isinstance(x, dict):
        return x
    if "l" in x and "pr" in x:
        return {"l": lmap.get(x["l"], x["l"]), "pr": [({"ix": lmap.get(e["ix"], e["ix"])} if isinstance(e, dict) and isinstance(e.get("ix"), int) else copy.deepcopy(e)) for e in x["pr"]],
                "ty": x.get("ty", "")}
    out = {}
    k = x.get("k")
    for key, v in x.items():
        if key in ("t", "else") and isinstance(v, int) and not isinstance(v, bool) and k in ("goto", "switch", "drop", "call", "assert"):
            out[key] = bmap.get(v, v)
        elif key == "ts" and k == "switch":
            out[key] = [[val, bmap.get(bb, bb)] for (val, bb) in v]
        else:
            out[key] = rename(v, lmap, bmap)
    return out


def binding_block(blk, j):
    """a block that only binds pattern variables out of an enum payload and jumps to j: returns the tuple of bound locals"""
    if blk.get("cleanup") or blk["term"]["k"] != "goto" or blk["term"]["t"] != j or not blk["stmts"]:
        return None
    bound = []
    for s in blk["stmts"]:
        if s["k"] != "assign" or s["p"]["pr"]:
            return None
        rv = s["rv"]
        src = None
        if rv["k"] == "use" and rv["o"]["k"] in ("move", "copy"):
            src = rv["o"]["p"]
        elif rv["k"] == "ref":
            src = rv["p"]
        if src is None or not any(isinstance(e, dict) and "dc" in e for e in src["pr"]):
            return None
        bound.append(s["p"]["l"])
    return tuple(bound)


def dominated(b, j):
    """blocks dominated by j (non-cleanup graph from block 0)"""
    n = len(b["blocks"])
    # reachable from 0 without passing through j
    seen = set()
    st = [0]
    while st:
        x = st.pop()
        if x in seen or x == j:
            continue
        seen.add(x)
        for t in succs(b["blocks"][x]):
            if t < n and not b["blocks"][t].get("cleanup"):
                st.append(t)
    # reachable from j
    rj = set()
    st = [j]
    while st:
        x = st.pop()
        if x in rj:
            continue
        rj.add(x)
        for t in succs(b["blocks"][x]):
            if t < n and not b["blocks"][t].get("cleanup"):
                st.append(t)
    return rj - seen


# an arm body larger than this is not an arm that does something with the bound value but a `let x = match v { A(x) | B(x) => x, .. };` followed by
# the rest of the function: there the binding keeps its two definitions (as `let x = if .. { a } else { b }` has)
OR_PATTERN_BODY_LIMIT = 40


EMPTY_CTORS = ("std::vec::Vec::<T>::new", "std::default::Default::default")


def prune_loops_over_nothing(b, log):
    """`for x in Vec::new()` (what `opt.unwrap_or_default()` leaves in the `None` alternative once that has its own copy of the loop): the first
    `next()` answers None"""
    n = 0
    for bi, blk in enumerate(b["blocks"]):
        t = blk["term"]
        if t is None or t["k"] != "call" or blk.get("cleanup") or t.get("t") is None:
            continue
        fn = callee_of(t)
        if fn is None or fn["path"] != ITER + "next" or len(t["args"]) != 1:
            continue
        a = t["args"][0]
        if a["k"] not in ("move", "copy") or a["p"]["pr"]:
            continue
        d = single_def(b, a["p"]["l"])
        if not (d and d[0] == "rv" and d[3]["k"] == "ref" and not d[3]["p"]["pr"]):
            continue
        it = d[3]["p"]["l"]
        v = None
        for _hop in range(4):
            di = single_def(b, it)
            if di is None:
                break
            if di[0] == "rv" and di[3]["k"] == "use" and di[3]["o"]["k"] in ("move", "copy") and not di[3]["o"]["p"]["pr"]:
                it = di[3]["o"]["p"]["l"]
                continue
            if di[0] == "call":
                f2 = callee_of(di[2])
                if f2 is not None and f2["path"] == "std::iter::IntoIterator::into_iter" and len(di[2]["args"]) == 1 and di[2]["args"][0]["k"] in ("move", "copy") \
                        and not di[2]["args"][0]["p"]["pr"]:
                    it = di[2]["args"][0]["p"]["l"]
                    continue
                if f2 is not None and f2["path"] in EMPTY_CTORS and not di[2]["args"] and b["locals"][it]["ty"].startswith("std::vec::Vec<"):
                    v = it
            break
        if v is None:
            continue
        # nothing else touches the list (a `&mut` taken for a push would be another occurrence)
        occ = 0
        for blk2 in b["blocks"]:
            if blk2.get("cleanup"):
                continue
            for st in blk2["stmts"]:
                acc = set()
                locals_in(st, acc)
                occ += v in acc
            acc = set()
            if blk2["term"] is not None:
                locals_in(blk2["term"], acc)
            occ += v in acc
        if occ != 2:  # its creation and the one move into the iterator
            continue
        blk["stmts"].append(assign(copy.deepcopy(t["dest"]), adt_agg("std::option::Option", "None", 0, []), blk["tloc"]))
        blk["term"] = goto(t["t"])
        n += 1
    # `out.append(&mut Vec::new())` (the `None` alternative of `opt.map_or_else(Vec::new, |x| walk(x))` once it has its own copy of the append): nothing
    m = 0
    for bi, blk in enumerate(b["blocks"]):
        t = blk["term"]
        if t is None or t["k"] != "call" or blk.get("cleanup") or t.get("t") is None:
            continue
        fn = callee_of(t)
        if fn is None or fn["path"] != "std::vec::Vec::<T, A>::append" or len(t["args"]) != 2:
            continue
        a = t["args"][1]
        if a["k"] not in ("move", "copy") or a["p"]["pr"]:
            continue
        d = single_def(b, a["p"]["l"])
        if not (d and d[0] == "rv" and d[3]["k"] == "ref" and d[3].get("mut") and not d[3]["p"]["pr"]):
            continue
        v = d[3]["p"]["l"]
        dv = single_def(b, v)
        if not (dv and dv[0] == "call" and (callee_of(dv[2]) or {}).get("path") in EMPTY_CTORS and not dv[2]["args"] and b["locals"][v]["ty"].startswith("std::vec::Vec<")):
            continue
        occ = 0
        for blk2 in b["blocks"]:
            if blk2.get("cleanup"):
                continue
            for st in blk2["stmts"]:
                acc = set()
                locals_in(st, acc)
                occ += v in acc
            if blk2["term"] is not None and blk2["term"]["k"] != "drop":
                acc = set()
                locals_in(blk2["term"], acc)
                occ += v in acc
        if occ != 2:  # its creation and the borrow for this append
            continue
        blk["term"] = goto(t["t"])
        m += 1
    if n or m:
        log.append("%s: %d loop(s) over / %d append(s) of a list that was just created empty removed" % (b["path"], n, m))


def drops_to_gotos(b):
    for blk in b["blocks"]:
        if not blk.get("cleanup") and blk["term"] is not None and blk["term"]["k"] == "drop":
            blk["term"] = goto(blk["term"]["t"])


def phi_binding_block(blk, j):
    """a block that ends an alternative by assigning (`let x = match .. { A => a, B => b }`): the locals it assigns whole"""
    if blk.get("cleanup") or blk["term"] is None:
        return None
    out = set()
    t = blk["term"]
    if t["k"] == "call" and t.get("t") == j and not t["dest"]["pr"]:
        out.add(t["dest"]["l"])  # (`A => f(a)`: the alternative's value is a call's result)
    elif t["k"] != "goto" or t["t"] != j or not blk["stmts"]:
        return None
    for st in blk["stmts"]:
        if st["k"] != "assign":
            return None
        if not st["p"]["pr"]:
            out.add(st["p"]["l"])
    return out


def unmerge_phi_joins(b, log):
    if os.environ.get("PHIJOIN_OFF"):
        return
    _unmerge_phi_joins(b, log)


def _unmerge_phi_joins(b, log):
    """`let xs = match attr { A(..) => list_a, B(..) => vec![e], _ => continue }; for x in xs { .. }`: what follows the match is the same code for
    each alternative, run on that alternative's value. When that part is small it is given to each alternative separately (as if the `for` had been
    written in each arm), so that rules which follow a value to where it came from see one origin per path instead of a merged one."""
    limit = 2 * len(b["blocks"]) + 120
    done = 0
    progress = True
    while progress and len(b["blocks"]) < limit and done < 12:
        progress = False
        live = dominated(b, 0)
        preds = {}
        for i, blk in enumerate(b["blocks"]):
            if blk.get("cleanup") or i not in live or blk["term"] is None:
                continue
            for t in succs(blk):
                preds.setdefault(t, []).append(i)
        for j, ps in sorted(preds.items()):
            if len(ps) < 2 or len(ps) > 4 or len(set(ps)) != len(ps) or b["blocks"][j].get("cleanup"):
                continue
            bound = [phi_binding_block(b["blocks"][p], j) for p in ps]
            if any(x is None for x in bound):
                continue
            common = set.intersection(*bound)
            if not common:
                continue
            region = dominated(b, j)
            if j not in region or len(region) > OR_PATTERN_BODY_LIMIT or any(p in region for p in ps):
                continue
            # the merged value must be looked at in what follows (otherwise there is nothing to separate), and be a list / option / node, not a flag or a number
            used = set()
            for x in region:
                locals_in(b["blocks"][x]["stmts"], used)
                locals_in(b["blocks"][x]["term"], used)
            cand = [l for l in common & used if l > b["arg_count"] and b["locals"][l]["ty"] not in ("bool", "usize", "u32", "i32", "u16", "()", "isize")]
            if not cand:
                continue
            # only where the merged value is a list that the shared code walks (`for x in xs`, `out.extend(xs)`): that is where a rule needs to know
            # which list it is. A merged scalar / option / string consumed by calls compares as the alternative it is, with no copy needed
            walked = set()
            for x in region:
                t_ = b["blocks"][x]["term"]
                f_ = callee_of(t_) if t_ is not None and t_["k"] == "call" else None
                # (.. or hands, as it is or converted with `into()`, to a function of the crate: `walk(targets, statement.into())`)
                if f_ is None or not (f_["path"] in ("std::iter::IntoIterator::into_iter", "core::slice::<impl [T]>::iter", "std::iter::Extend::extend", "std::convert::Into::into", "std::vec::Vec::<T, A>::append")
                                      or ((f_.get("local") or f_.get("resolved_local")) and f_.get("kind") != "Closure" and "solang_parser::pt::" in json.dumps(t_["args"]))):
                    continue
                for a_ in t_["args"]:
                    if a_["k"] not in ("move", "copy"):
                        continue
                    l_ = a_["p"]["l"]
                    for _hop in range(5):
                        walked.add(l_)
                        d_ = single_def(b, l_)
                        if d_ and d_[0] == "rv" and d_[3]["k"] == "use" and d_[3]["o"]["k"] in ("move", "copy"):
                            l_ = d_[3]["o"]["p"]["l"]
                        elif d_ and d_[0] == "rv" and d_[3]["k"] == "ref":
                            l_ = d_[3]["p"]["l"]
                        else:
                            break
            cand = [l for l in cand if l in walked]
            if not cand:
                continue
            # when everything that is done with the merged value sits in the straight line that starts at the join, only that stretch is copied and the
            # alternatives meet again right after it (`out.append(&mut walk(.., x.into()))` for each alternative's x, then the common rest once)
            chain = [j]
            while True:
                nx = succs(b["blocks"][chain[-1]])
                if len(nx) != 1 or nx[0] in chain or nx[0] not in region or len(preds.get(nx[0], [])) != 1 or b["blocks"][chain[-1]]["term"]["k"] not in ("goto", "call"):
                    break
                chain.append(nx[0])
            tainted = set(cand)
            last_use = -1
            for k_, x in enumerate(chain):
                blk_ = b["blocks"][x]
                for st in blk_["stmts"]:
                    acc = set()
                    locals_in(st["rv"] if st["k"] == "assign" else st, acc)
                    if st["k"] == "assign" and st["p"]["pr"]:
                        locals_in(st["p"], acc)
                    if acc & tainted:
                        last_use = k_
                        if st["k"] == "assign":
                            tainted.add(st["p"]["l"])
                t_ = blk_["term"]
                acc = set()
                if t_["k"] == "call":
                    locals_in(t_["args"], acc)
                    locals_in(t_.get("f"), acc)
                else:
                    locals_in(t_, acc)
                if acc & tainted:
                    last_use = k_
                    if t_["k"] == "call" and (t_["dest"].get("ty") or b["locals"][t_["dest"]["l"]]["ty"]) not in ("()",):
                        tainted.add(t_["dest"]["l"])
            rest_uses = set()
            for x in region:
                if x in chain[:last_use + 1]:
                    continue
                locals_in(b["blocks"][x]["stmts"], rest_uses)
                locals_in(b["blocks"][x]["term"], rest_uses)
            if 0 <= last_use < len(chain) - 1 and not (rest_uses & tainted) and b["blocks"][chain[last_use]]["term"]["k"] in ("goto", "call"):
                region = set(chain[:last_use + 1])
            # a loop head among the region's exits back to a block outside is fine (the `continue` of the enclosing loop); the region itself must not be
            # entered from elsewhere (dominance guarantees it)
            inside = set(region) | set(ps)
            used_in, used_out = set(), set()
            for i, blk in enumerate(b["blocks"]):
                if blk.get("cleanup") or i not in live:
                    continue
                acc = set()
                locals_in(blk["stmts"], acc)
                locals_in(blk["term"], acc)
                (used_in if i in inside else used_out).update(acc)
            private = set(l for l in used_in - used_out if l > b["arg_count"])
            if not (set(cand) <= private):
                continue
            order = sorted(region)
            for p in ps[1:]:
                lmap = {}
                for l in sorted(private):
                    b["locals"].append(copy.deepcopy(b["locals"][l]))
                    lmap[l] = len(b["locals"]) - 1
                bmap = {x: len(b["blocks"]) + k for k, x in enumerate(order)}
                for x in order:
                    b["blocks"].append(rename(b["blocks"][x], lmap, bmap))
                pb = b["blocks"][p]
                pb["stmts"] = rename(pb["stmts"], lmap, {})
                if pb["term"]["k"] == "call":
                    pb["term"] = rename(pb["term"], lmap, {j: bmap[j]})
                else:
                    pb["term"] = goto(bmap[j])
            done += 1
            progress = True
            break
    if done:
        log.append("%s: %d value(s) chosen by a match given their own copy of the code that follows" % (b["path"], done))


def unmerge_or_patterns(b, log):
    """an or-pattern with bindings (`A(x) | B(x) => body`) is lowered to one binding block per alternative that all jump to a shared body; give every
    alternative its own copy of the body so that each binding has a single definition (the shape of separate arms)"""
    limit = 3 * len(b["blocks"]) + 200
    done = 0
    progress = True
    while progress and len(b["blocks"]) < limit and done < 200:
        progress = False
        n = len(b["blocks"])
        preds = {}
        for i, blk in enumerate(b["blocks"]):
            if blk.get("cleanup"):
                continue
            for t in succs(blk):
                preds.setdefault(t, []).append(i)
        for j, ps in preds.items():
            if len(ps) < 2 or len(set(ps)) != len(ps) or b["blocks"][j].get("cleanup"):
                continue
            bound = [binding_block(b["blocks"][p], j) for p in ps]
            if any(x is None for x in bound) or len(set(bound)) != 1:
                continue
            region = dominated(b, j)
            if j not in region or len(region) > OR_PATTERN_BODY_LIMIT:
                continue
            # locals that live entirely inside the region and the binding blocks get a fresh copy per alternative
            inside = set(region) | set(ps)
            used_in, used_out = set(), set()
            for i, blk in enumerate(b["blocks"]):
                if blk.get("cleanup"):
                    continue
                acc = set()
                locals_in(blk["stmts"], acc)
                locals_in(blk["term"], acc)
                (used_in if i in inside else used_out).update(acc)
            private = set(l for l in used_in - used_out if l > b["arg_count"])
            order = sorted(region)
            for p in ps[1:]:
                lmap = {}
                for l in sorted(private):
                    b["locals"].append(copy.deepcopy(b["locals"][l]))
                    lmap[l] = len(b["locals"]) - 1
                bmap = {x: len(b["blocks"]) + k for k, x in enumerate(order)}
                for x in order:
                    b["blocks"].append(rename(b["blocks"][x], lmap, bmap))
                pb = b["blocks"][p]
                pb["stmts"] = rename(pb["stmts"], lmap, {})
                pb["term"] = goto(bmap[j])
            done += 1
            progress = True
            break
    if done:
        log.append("%s: %d or-pattern arm(s) with bindings split into one body per alternative" % (b["path"], done))


def unroll_literal_array_loops(b, log):
    """`for x in [a, b, c] { body }` (an array literal of at most 6 elements, iterated by value): the body once per element, in order, `break` and
    `continue` keeping their meaning. What the loop does for "the elements of the array" is then stated for each operand by name"""
    done = 0
    for _round in range(12):
        did = False
        preds = {}
        live, work = set(), [0]
        while work:
            x = work.pop()
            if x in live or x >= len(b["blocks"]) or b["blocks"][x].get("cleanup") or b["blocks"][x]["term"] is None:
                continue
            live.add(x)
            work += succs(b["blocks"][x])
        for i in live:
            for t in succs(b["blocks"][i]):
                preds.setdefault(t, []).append(i)
        for H in sorted(live):
            blk = b["blocks"][H]
            t = blk["term"]
            fn = callee_of(t) if t["k"] == "call" else None
            if fn is None or fn["path"] != ITER + "next" or t.get("t") is None or not t["args"] or t["args"][0]["k"] not in ("move", "copy"):
                continue
            # the iterator local behind the `&mut it` (possibly reborrowed) handed to next()
            o = t["args"][0]
            it_l = None
            for _ in range(3):
                d = single_def(b, o["p"]["l"]) if not o["p"]["pr"] else None
                if not (d and d[0] == "rv" and d[3]["k"] == "ref"):
                    break
                pl = d[3]["p"]
                if not pl["pr"]:
                    it_l = pl["l"]
                    break
                if pl["pr"] == ["deref"]:
                    o = {"k": "copy", "p": {"l": pl["l"], "pr": []}}
                    continue
                break
            if it_l is None:
                continue
            ity = b["locals"][it_l]["ty"]
            if not ity.startswith(("std::array::IntoIter<", "core::array::IntoIter<")):
                continue
            ops = literal_array_source(b, {"k": "move", "p": {"l": it_l, "pr": []}})
            if ops is None or len(ops) > 6 or not all(op_["k"] in ("move", "copy", "const") for op_ in ops):
                continue
            # the switch on the Option: None -> exhausted, Some -> body
            sw = t["t"]
            st = b["blocks"][sw]["term"]
            if st["k"] != "switch" or len(preds.get(sw, [])) != 1:
                continue
            tgt = dict((v, bb) for (v, bb) in st["ts"])
            if 0 not in tgt or 1 not in tgt:
                continue
            exhausted, some = tgt[0], tgt[1]
            sb = b["blocks"][some]
            if not sb["stmts"] or sb["stmts"][0]["k"] != "assign" or sb["stmts"][0]["rv"]["k"] != "use" or sb["stmts"][0]["rv"]["o"]["k"] not in ("move", "copy") \
                    or not any(isinstance(e, dict) and e.get("dc") == "Some" for e in sb["stmts"][0]["rv"]["o"]["p"]["pr"]):
                continue
            # loop body: reachable from `some` without passing H, and able to come back to H
            dom_h = set(dominated(b, H))
            fwd, work = set(), [some]
            while work:
                x = work.pop()
                if x in fwd or x == H or x not in live or x not in dom_h:
                    continue
                fwd.add(x)
                work += succs(b["blocks"][x])
            back, work = set(), [p_ for p_ in preds.get(H, []) if p_ in fwd]
            while work:
                x = work.pop()
                if x in back or x not in fwd:
                    continue
                back.add(x)
                work += [p_ for p_ in preds.get(x, []) if p_ in fwd]
            body = sorted(back | {some})
            if len(body) > 150 or any(p_ not in body and p_ != sw for x in body if x != some for p_ in preds.get(x, [])):
                continue  # (entered from outside somewhere else: not a plain loop)
            if any(H in succs(b["blocks"][x]) for x in live if x not in body and x != sw) is False and not [p_ for p_ in preds.get(H, []) if p_ not in body]:
                continue
            inside = set(body) | {H, sw}
            used_in, used_out = set(), set()
            for i in live:
                acc = set()
                locals_in(b["blocks"][i]["stmts"], acc)
                locals_in(b["blocks"][i]["term"], acc)
                (used_in if i in inside else used_out).update(acc)
            private = set(l for l in used_in - used_out if l > b["arg_count"] and l != it_l)
            entries = []
            n0 = len(b["blocks"])
            for k, op_ in enumerate(ops):
                lmap = {}
                for l in sorted(private):
                    b["locals"].append(copy.deepcopy(b["locals"][l]))
                    lmap[l] = len(b["locals"]) - 1
                bmap = {x: len(b["blocks"]) + j for j, x in enumerate(body)}
                bmap[H] = -1 - k  # patched below: the next copy's entry
                for x in body:
                    nb = rename(b["blocks"][x], lmap, bmap)
                    if x == some:
                        nb["stmts"][0] = assign(copy.deepcopy(nb["stmts"][0]["p"]), use(copy.deepcopy(op_)), nb["stmts"][0].get("loc") or blk["tloc"])
                    b["blocks"].append(nb)
                entries.append(bmap[some])
            entries.append(exhausted)

            def patch(x):
                if isinstance(x, list):
                    for i_, v in enumerate(x):
                        if isinstance(v, list) and len(v) == 2 and isinstance(v[1], int) and not isinstance(v[1], bool) and v[1] < 0:
                            v[1] = entries[-v[1]]
                        else:
                            patch(v)
                elif isinstance(x, dict):
                    for key in ("t", "else"):
                        if isinstance(x.get(key), int) and not isinstance(x.get(key), bool) and x[key] < 0 and x.get("k") in ("goto", "switch", "drop", "call", "assert"):
                            x[key] = entries[-x[key]]
                    for v in x.values():
                        patch(v)
            patch(b["blocks"][n0:])
            # entering the loop now means entering the first copy
            for p_ in preds.get(H, []):
                if p_ in body:
                    continue
                pb = rename(b["blocks"][p_], {}, {H: entries[0]})
                b["blocks"][p_]["term"] = pb["term"]
            done += 1
            did = True
            break
        if not did:
            break
    if done:
        log.append("%s: %d loop(s) over a literal array unrolled" % (b["path"], done))


def unmerge_match_values(b, log):
    """`let x = match n { A(P(b)) => *b, B(Q(b)) => *b, _ => continue };` — every arm binds out of its own variant, derives the same local from the
    binding (a move out of the box, a reference, a field) and the arms meet again, possibly after dropping the emptied box. As for or-patterns, every
    arm gets its own copy of the code that follows, so that what follows speaks about one variant at a time"""
    limit = 3 * len(b["blocks"]) + 200
    done = 0
    progress = True
    while progress and len(b["blocks"]) < limit and done < 50:
        progress = False
        preds = {}
        live, work = set(), [0]
        while work:
            x = work.pop()
            if x in live or x >= len(b["blocks"]) or b["blocks"][x].get("cleanup") or b["blocks"][x]["term"] is None:
                continue
            live.add(x)
            work += succs(b["blocks"][x])
        for i, blk in enumerate(b["blocks"]):
            if i not in live:
                continue
            for t in succs(blk):
                preds.setdefault(t, []).append(i)
        for j, ps in sorted(preds.items()):
            if len(ps) < 2 or len(set(ps)) != len(ps) or b["blocks"][j].get("cleanup"):
                continue
            chains, bounds = [], []
            for p in ps:
                chain = [p]
                cur = p
                ok = True
                while not b["blocks"][cur]["stmts"]:
                    rs = preds.get(cur, [])
                    if len(rs) != 1 or b["blocks"][rs[0]]["term"]["k"] not in ("goto", "drop") or rs[0] in chain or len(chain) > 4:
                        ok = False
                        break
                    cur = rs[0]
                    chain.insert(0, cur)
                q = b["blocks"][cur]
                if not ok or q.get("cleanup") or q["term"]["k"] not in ("goto", "drop") or any(len(preds.get(x, [])) != 1 for x in chain[1:]):
                    chains = None
                    break
                bound = []
                for st in q["stmts"]:
                    if st["k"] != "assign" or st["p"]["pr"]:
                        bound = None
                        break
                    rv = st["rv"]
                    src = rv["o"]["p"] if rv["k"] == "use" and rv["o"]["k"] in ("move", "copy") else (rv["p"] if rv["k"] == "ref" else None)
                    if src is None or not (any(isinstance(e, dict) and "dc" in e for e in src["pr"]) or src["l"] in bound):
                        bound = None
                        break
                    bound.append(st["p"]["l"])
                if not bound or not any(any(isinstance(e, dict) and "dc" in e for e in ((st["rv"].get("o") or {}).get("p") or st["rv"].get("p") or {"pr": []})["pr"]) for st in q["stmts"]):
                    chains = None
                    break
                chains.append(chain)
                bounds.append(bound)
            if not chains:
                continue
            common = set(bounds[0])
            for bd in bounds[1:]:
                common &= set(bd)
            flat = [x for c in chains for x in c]
            if not common or len(set(flat)) != len(flat) or all(tuple(bd) == tuple(bounds[0]) and len(c) == 1 for bd, c in zip(bounds, chains)):
                continue  # (the plain or-pattern shape is unmerge_or_patterns' business)
            region = dominated(b, j)
            if j not in region or len(region) > OR_PATTERN_BODY_LIMIT:
                continue
            inside = set(region) | set(flat)
            used_in, used_out = set(), set()
            for i, blk in enumerate(b["blocks"]):
                if blk.get("cleanup") or blk["term"] is None:
                    continue
                acc = set()
                locals_in(blk["stmts"], acc)
                locals_in(blk["term"], acc)
                (used_in if i in inside else used_out).update(acc)
            private = set(l for l in used_in - used_out if l > b["arg_count"])
            if not common <= private:
                continue
            order = sorted(region)
            for chain in chains[1:]:
                lmap = {}
                for l in sorted(private):
                    b["locals"].append(copy.deepcopy(b["locals"][l]))
                    lmap[l] = len(b["locals"]) - 1
                bmap = {x: len(b["blocks"]) + k for k, x in enumerate(order)}
                for x in order:
                    b["blocks"].append(rename(b["blocks"][x], lmap, bmap))
                for x in chain:
                    nb = rename(b["blocks"][x], lmap, {})
                    b["blocks"][x]["stmts"] = nb["stmts"]
                    b["blocks"][x]["term"] = nb["term"]
                last = b["blocks"][chain[-1]]["term"]
                last["t"] = bmap[j]
            done += 1
            progress = True
            break
    if done:
        log.append("%s: %d match(es) whose arms bind out of different variants and meet again split into one continuation per arm" % (b["path"], done))


def signatures(c):
    """{function path: {args, ret, callees, callers, blocks}} for the functions (not closures, not derived code) of one crate's facts"""
    bodies = {b["path"]: b for b in c["bodies"]}
    out = {}
    owner = lambda p: p.split("::{closure")[0]
    for b in c["bodies"]:
        if is_closure(b) or b.get("derived") or b.get("kind") not in ("Fn", "AssocFn"):
            continue
        out[b["path"]] = {"args": [b["locals"][i + 1]["ty"] for i in range(b["arg_count"])], "ret": b["locals"][0]["ty"], "callees": set(), "callers": set(),
                          "blocks": len([x for x in b["blocks"] if not x.get("cleanup")])}
    for b in c["bodies"]:
        if b.get("derived"):
            continue
        me = owner(b["path"])
        for _bi, _t, fn in calls_of(b):
            g = local_callee(fn, bodies)
            if g is not None and g["path"] in out and me in out and g["path"] != me:
                out[me]["callees"].add(g["path"])
                out[g["path"]]["callers"].add(me)
    for v in out.values():
        v["callees"], v["callers"] = sorted(v["callees"]), sorted(v["callers"])
    return out


def adt_fingerprints(c):
    """{type path: fingerprint} of the crate's own structs and enums: kind, variant names and the names of their fields"""
    out = {}
    for a in c.get("adts", []):
        if a.get("krate") != c.get("crate"):
            continue
        out[a["path"]] = [a.get("kind"), [[v.get("name") if a.get("kind") == "enum" else "", [f.get("name") for f in v.get("fields", [])]] for v in a.get("variants", [])]]
    return out


def recognise_type_renames(data, ref, log):
    """a struct / enum of the reference tree that is gone while a new one with the same kind, variants and field names has appeared is that type under a
    new name: every printed path is rewritten to the reference name"""
    cur = adt_fingerprints(data)
    missing = [p for p in ref if p not in cur]
    new = [p for p in cur if p not in ref]
    mp = {}
    for m in missing:
        cands = [n for n in new if cur[n] == ref[m] and n not in mp]
        if len(cands) > 1:
            same_mod = [n for n in cands if n.rsplit("::", 1)[0] == m.rsplit("::", 1)[0]]
            cands = same_mod if len(same_mod) == 1 else cands
        if len(cands) == 1 and (len(ref[m][1]) > 1 or any(v[1] for v in ref[m][1])):
            mp[cands[0]] = m
    if not mp:
        return {}
    rx = re.compile(r"(?<![\w:])(" + "|".join(re.escape(n) for n in sorted(mp, key=len, reverse=True)) + r")(?![\w])")

    def sub(t):
        return rx.sub(lambda m_: mp[m_.group(1)], t) if "::" in t else t

    def walk(x):
        if isinstance(x, list):
            for i, v in enumerate(x):
                if isinstance(v, str):
                    x[i] = sub(v)
                else:
                    walk(v)
        elif isinstance(x, dict):
            for key, v in list(x.items()):
                if isinstance(v, str):
                    if key not in ("file", "k", "op", "ck", "name", "n"):
                        x[key] = sub(v)
                else:
                    walk(v)
    walk(data["bodies"])
    walk(data.get("adts", []))
    walk(data.get("statics", []))
    for n, m in sorted(mp.items()):
        log.append("type %s recognised as the reference tree's %s (renamed or moved; same variants and fields)" % (n, m))
    return mp


def resolve_blanket_into(data, log):
    """`x.into()` where the crate implements `From<X> for Y` (not `Into<Y> for X`): std's blanket `Into` impl does nothing but call that `from`"""
    froms = {}
    for b in data["bodies"]:
        if b.get("impl_trait") == "std::convert::From" and b.get("impl_self") and b.get("arg_count") == 1 and b["path"].endswith("::from"):
            froms.setdefault((b["locals"][1]["ty"], b["impl_self"]), []).append(b["path"])
    if not froms:
        return
    n = 0
    for b in data["bodies"]:
        for blk in b["blocks"]:
            t = blk["term"]
            fn = callee_of(t) if t is not None and t["k"] == "call" else None
            if fn is None or fn.get("path") != "std::convert::Into::into" or fn.get("resolved") != "<T as std::convert::Into<U>>::into":
                continue
            ga = fn.get("gargs") or []
            cands = froms.get((ga[0], ga[1]), []) if len(ga) == 2 else []
            if len(cands) == 1:
                fn.update({"resolved": cands[0], "resolved_krate": data.get("crate"), "resolved_local": True, "resolved_kind": "Item"})
                n += 1
    if n:
        log.append("%d `into()` call(s) through std's blanket impl resolved to the crate's own `From` impl" % n)


def structs_as_tuples(data, ref, log):
    """a struct that the reference tree does not have, all of whose trait impls are derived, is a tuple with names: `(String, BTreeSet<LineNumber>)`
    turned into `struct FileMatches { file_name, lines }` builds, reads, compares (derived `Ord` is lexicographic in field order, as a tuple's) and
    prints the same. It is written back as the tuple (a one-field struct as the field itself), so that rules speaking of "the file name, field 0 of the
    pair" see the pair. A struct with a hand-written impl of any trait keeps its identity."""
    adts = data.get("adts", [])
    local = [a for a in adts if a.get("kind") == "struct" and a.get("krate") == data.get("crate") and a["path"] not in ref
             and len(a.get("variants", [])) == 1 and a["variants"][0].get("fields")]
    if not local:
        return {}
    LT = r"<(?:'\w+(?:, )?)+>"
    owners = {}  # field (index, name) -> structs that have it, over every ADT the facts know
    struct_fields = {}
    for a in adts:
        if a.get("kind") != "struct":
            continue
        for v in a.get("variants", []):
            for i, f in enumerate(v.get("fields", [])):
                owners.setdefault((i, f.get("name")), set()).add(a["path"])
        if len(a.get("variants", [])) == 1:
            struct_fields[a["path"]] = [f.get("tys") for f in a["variants"][0].get("fields", [])]
    chosen = {}
    for a in local:
        path = a["path"]
        fields = a["variants"][0]["fields"]
        impls = [b for b in data["bodies"] if b.get("impl_self") == path and b.get("impl_trait")]
        if any(not b.get("derived") for b in impls):
            continue
        if any(path in (f.get("tys") or "") for f in fields):
            continue  # recursive
        if any(not f.get("name") or str(f.get("name")).isdigit() for f in fields):
            continue
        tys = [f.get("tys") or "?" for f in fields]
        chosen[path] = (fields, tys[0] if len(tys) == 1 else "(" + ", ".join(tys) + ")")
    if not chosen:
        return {}
    ambiguous = set()
    for path, (fields, _t) in chosen.items():
        for i, f in enumerate(fields):
            if len(owners.get((i, f["name"]), ())) != 1:
                ambiguous.add((i, f["name"]))

    def step_type(ty, e):
        """type of `place.e` given the type of `place`, None when not known"""
        if ty is None:
            return None
        ty = ty.strip()
        if e == "deref":
            m_ = re.match(r"^&('\w+ )?(mut )?", ty)
            if m_:
                return ty[m_.end():]
            if ty.startswith("std::boxed::Box<"):
                return _first_arg(ty[len("std::boxed::Box<"):-1])
            return None
        if isinstance(e, dict) and "dc" in e:
            return ty
        if isinstance(e, dict) and isinstance(e.get("f"), int):
            base = re.sub(LT + "$", "", ty)
            if base in struct_fields:
                fs_ = struct_fields[base]
                return fs_[e["f"]] if e["f"] < len(fs_) else None
            tf = tuple_fields(ty)
            if tf is not None:
                return tf[e["f"]] if e["f"] < len(tf) else None
            if ty.startswith("std::option::Option<") and e["f"] == 0:
                return ty[len("std::option::Option<"):-1]
            return None
        return None

    def owner_of(b, place, k):
        """the chosen struct whose field the k-th projection of the place reads, None if it is another type's, "?" if it cannot be told"""
        e = place["pr"][k]
        cands = [p_ for p_ in chosen if e["f"] < len(chosen[p_][0]) and chosen[p_][0][e["f"]]["name"] == e.get("n")]
        if not cands:
            return None
        if (e["f"], e.get("n")) not in ambiguous:
            return cands[0]
        ty = b["locals"][place["l"]]["ty"] if place["l"] < len(b["locals"]) else None
        for e2 in place["pr"][:k]:
            ty = step_type(ty, e2)
        if ty is None:
            return "?"
        base = re.sub(LT + "$", "", ty.strip())
        return base if base in cands else None

    def places(x, out):
        if isinstance(x, list):
            for v in x:
                places(v, out)
        elif isinstance(x, dict):
            if "l" in x and "pr" in x:
                out.append(x)
                return
            for v in x.values():
                places(v, out)

    # first pass: a struct one of whose fields is read through a place whose type cannot be followed keeps its identity
    undecidable = set()
    for b in data["bodies"]:
        ps_ = []
        places(b["blocks"], ps_)
        for pl in ps_:
            for k, e in enumerate(pl["pr"]):
                if isinstance(e, dict) and isinstance(e.get("f"), int) and (e["f"], e.get("n")) in ambiguous and owner_of(b, pl, k) == "?":
                    for p_ in chosen:
                        if e["f"] < len(chosen[p_][0]) and chosen[p_][0][e["f"]]["name"] == e.get("n"):
                            undecidable.add(p_)
    for p_ in sorted(undecidable):
        log.append("struct %s keeps its identity: a read of one of its fields could not be told from another struct's" % p_)
        chosen.pop(p_)
    if not chosen:
        return {}
    rx = re.compile(r"(?<![\w:])(" + "|".join(re.escape(n) for n in sorted(chosen, key=len, reverse=True)) + r")(" + LT + r")?(?![\w])")

    def sub(t):
        if "::" not in t:
            return t
        prev = None
        while prev != t:
            prev = t
            t = rx.sub(lambda m_: chosen[m_.group(1)][1], t)
        return t

    # second pass: the field reads, place by place, while the locals still have their struct types
    for b in data["bodies"]:
        if b.get("impl_self") in chosen and b.get("derived"):
            continue
        ps_ = []
        places(b["blocks"], ps_)
        for pl in ps_:
            owners_k = [owner_of(b, pl, k) if isinstance(e, dict) and isinstance(e.get("f"), int) else None for k, e in enumerate(pl["pr"])]
            new_pr = []
            for k, e in enumerate(pl["pr"]):
                o_ = owners_k[k]
                if o_ in chosen:
                    if len(chosen[o_][0]) == 1:
                        continue  # the one field of a wrapper is the value itself
                    new_pr.append({"f": e["f"], "n": str(e["f"])})
                else:
                    new_pr.append(e)
            pl["pr"] = new_pr

    def walk(x):
        if isinstance(x, list):
            for v in x:
                walk(v)
        elif isinstance(x, dict):
            if x.get("k") == "agg" and x.get("ak") == "adt" and x.get("adt") in chosen:
                fields, _t = chosen[x["adt"]]
                walk(x["ops"])
                ops = x["ops"]
                x.clear()
                if len(fields) == 1:
                    x.update({"k": "use", "o": ops[0]})
                else:
                    x.update({"k": "agg", "ak": "tuple", "ops": ops})
                return
            for key, v in list(x.items()):
                if isinstance(v, str):
                    if key in ("ty", "tys", "self_ty", "dty"):  # (types only: paths of functions, closures and impls keep the struct's name)
                        x[key] = sub(v)
                elif key == "gargs" and isinstance(v, list):
                    x[key] = [sub(g_) if isinstance(g_, str) else g_ for g_ in v]
                else:
                    walk(v)
    for b in data["bodies"]:
        if b.get("impl_self") in chosen and b.get("derived"):
            continue
        walk(b["locals"])
        walk(b["blocks"])
        for l in b["locals"]:
            if isinstance(l.get("tt"), dict) and any(p_ in json.dumps(l["tt"]) for p_ in chosen):
                l["tt"] = {"other": l["ty"]}
    data["bodies"] = [b for b in data["bodies"] if not (b.get("impl_self") in chosen and b.get("derived"))]
    data["adts"] = [a for a in adts if a["path"] not in chosen]
    for path, (fields, t) in sorted(chosen.items()):
        log.append("struct %s (new; derived impls only) read as %s" % (path, "the tuple " + t if len(fields) > 1 else "its one field, " + t))
    return chosen


def recognise_renames(data, ref, log):
    """a function of the reference tree that is gone while a new function with the same parameter and result types and the same place in the call graph
    has appeared is that function under a new name (or in a new module): the facts are rewritten to the reference name, so that rules anchored on the
    reference inventory examine the renamed function's code (a wrong pairing cannot hide anything: the code examined is still the code that runs)"""
    cur = signatures(data)
    missing = [p for p in ref if p not in cur]
    new = [p for p in cur if p not in ref]
    if not missing or not new:
        return {}

    def jac(a, b):
        a, b = set(a), set(b)
        return (len(a & b) / float(len(a | b))) if (a or b) else 1.0

    def score(n, m, mp):
        c, r = cur[n], ref[m]
        inv = {v: k for k, v in mp.items()}
        tr = lambda xs: [mp.get(x, x) for x in xs]
        s_ = 0.0
        def unref(t):
            t = re.sub(r"^&('\w+ )?(mut )?", "", t).strip()
            if t.startswith("std::boxed::Box<") and t.endswith(">"):
                t = t[len("std::boxed::Box<"):-1]
            return t
        if c["args"] == r["args"] and c["ret"] == r["ret"]:
            s_ += 2.0
        elif [unref(a) for a in c["args"]] == [unref(a) for a in r["args"]] and c["ret"] == r["ret"]:
            s_ += 1.5  # the same parameters, now borrowed (or now owned)
        elif len(c["args"]) == len(r["args"]) and c["ret"] == r["ret"]:
            s_ += 0.75
        elif len(c["args"]) != len(r["args"]):
            s_ -= 1.0
        s_ += jac(tr(c["callees"]), r["callees"]) + jac(tr(c["callers"]), r["callers"])
        if n.rsplit("::", 1)[0] == m.rsplit("::", 1)[0]:
            s_ += 0.5
        if n.rsplit("::", 1)[-1] == m.rsplit("::", 1)[-1]:
            s_ += 1.0  # moved, not renamed
        return s_
    mp = {}
    for _round in range(3):
        best_for_m = {}
        for m in missing:
            if m in mp.values():
                continue
            sc = sorted(((score(n, m, mp), n) for n in new if n not in mp), reverse=True)
            if sc and sc[0][0] >= 3.0 and (len(sc) == 1 or sc[0][0] - sc[1][0] >= 0.5):
                best_for_m[m] = sc[0]
        changed = False
        for m, (s_, n) in sorted(best_for_m.items(), key=lambda kv: -kv[1][0]):
            # mutual: m must also be the best reference function for n
            back = sorted(((score(n, m2, mp), m2) for m2 in missing if m2 not in mp.values()), reverse=True)
            if back and back[0][1] == m and n not in mp:
                mp[n] = m
                changed = True
        if not changed:
            break
    if not mp:
        return {}

    def tr_path(p):
        if not isinstance(p, str):
            return p
        for n, m in mp.items():
            if p == n:
                return m
            if p.startswith(n + "::"):
                return m + p[len(n):]
        return p

    def walk(x):
        if isinstance(x, list):
            for v in x:
                walk(v)
        elif isinstance(x, dict):
            for key in ("path", "resolved", "closure", "disp"):
                if key in x and isinstance(x[key], str):
                    x[key] = tr_path(x[key])
            for v in x.values():
                walk(v)
    walk(data["bodies"])
    walk(data.get("statics", []))
    for n, m in sorted(mp.items()):
        log.append("%s recognised as the reference tree's %s (renamed or moved; same signature and callers)" % (n, m))
    data["renamed"] = {m: n for n, m in mp.items()}
    return mp


# ------------------------------------------------------------------ driver


def preprocess(data, known=None, known_uses=None):
    """rewrites one crate's facts in place and returns them, with data['prep_log'] listing what was rewritten"""
    if known is None:
        known, known_uses = load_known()
    log = []  # the facts were just read from disk for this process: they are rewritten in place
    try:
        ctype = {"bin": "bin", "executable": "bin", "lib": "lib", "rlib": "lib"}.get(str(data.get("crate_type")), str(data.get("crate_type")))
        radts = REF_ADTS.get(ctype)
        resolve_blanket_into(data, log)
        monomorphise_uniform_generics(data, log)
        if radts:
            recognise_type_renames(data, radts, log)
            structs_as_tuples(data, radts, log)
        refs = REF_SIGS.get(ctype) or REF_SIGS.get(str(data.get("crate_type")))
        if refs:
            recognise_renames(data, refs, log)
    except Exception as e:
        log.append("rename recognition failed: %s" % e)
    bodies = {b["path"]: b for b in data["bodies"]}
    for a_ in data.get("adts", []):
        if a_.get("kind") == "enum":
            for v_ in a_.get("variants", []):
                if not v_.get("fields") and v_.get("discr") in (None, v_.get("vi")):
                    PLAIN_UNIT_VARIANTS.add((a_["path"], v_.get("vi")))
    try:
        resolve_named_consts(data, log)
        if known is not None:
            call_computed_consts(data, known, log)
    except Exception as e:
        log.append("named constants: %s" % e)
    spliced_closures = set()
    todo = [b for b in data["bodies"] if not b.get("derived")]

    def guarded(what, fn_, *a):
        try:
            return fn_(*a)
        except Exception as e:  # leave the body as it is: rules will fail closed on shapes they do not know
            log.append("%s: %s failed: %s" % (a[0].get("path", "?") if a and isinstance(a[0], dict) else "?", what, e))
            return None

    # phase 1: rewrites local to one body
    for b in todo:
        # the end of a value's scope is no event for any rule (what Drop impls do is std's or solang's business, C04's callee table): a scope-end
        # drop is a plain jump, so that the paths through a function are not chopped up by them
        drops_to_gotos(b)
        guarded("idiom rewriting", rewrite_idioms, b, log)
        guarded("known variants", explicit_known_variants, b, log)
        guarded("`?` desugaring", desugar_try, b, log)
        guarded("jump threading", thread_bool_jumps, b, log)
        if b["path"] not in KNOWN_ORPAT:
            guarded("or-pattern splitting", unmerge_or_patterns, b, log)
        if b["path"] not in KNOWN_ORPAT and b["path"] not in KNOWN_MATCHVAL:
            guarded("match value splitting", unmerge_match_values, b, log)
        if b["path"] not in KNOWN_ARRAYLOOPS:
            guarded("literal array loop unrolling", unroll_literal_array_loops, b, log)
        if b["path"] not in KNOWN_PHIJOIN and b["path"] not in KNOWN_ORPAT and b["path"] not in KNOWN_MATCHVAL:
            guarded("match value joins", unmerge_phi_joins, b, log)
    r = guarded("lazy statics", lambda d_: lazy_statics(d_, bodies, log), data)
    if r:
        spliced_closures |= r
    # phase 2: closures are spliced into their users, innermost closures first so that what is spliced is already normalised
    for b in sorted(todo, key=lambda b_: -b_["path"].count("{closure#")):
        guarded("diverging unwrap_or_else", diverging_unwrap_or_else, b, bodies, log)
        for what, fn_ in (("local closure calls", lambda b_: inline_closure_calls(b_, bodies, log)),
                          ("bool::then desugaring", lambda b_: desugar_bool_then(b_, bodies, log)),
                          ("retain desugaring", lambda b_: desugar_retain(b_, bodies, known_uses, log)),
                          ("Option combinator desugaring", lambda b_: desugar_option_combinators(b_, bodies, known_uses, log)),
                          ("adaptor desugaring", lambda b_: desugar_body(b_, bodies, known_uses, log)),
                          ("local closure calls", lambda b_: inline_closure_calls(b_, bodies, log))):
            r = guarded(what, fn_, b)
            if r:
                spliced_closures |= r
        if b["path"] not in KNOWN_PHIJOIN and b["path"] not in KNOWN_ORPAT and b["path"] not in KNOWN_MATCHVAL:
            guarded("match value joins", unmerge_phi_joins, b, log)
            guarded("loops over nothing", prune_loops_over_nothing, b, log)
        guarded("jump threading", thread_bool_jumps, b, log)
    dropped = set()
    if known is not None:
        n_log = len(log)
        dropped = inline_unknown(data, bodies, known, log)
        # a chain may now run across what used to be a call boundary (`helper(x).any(..)` with `helper -> impl Iterator`): desugar once more where something was spliced in
        touched = set(l.split(": call to new helper", 1)[0] for l in log[n_log:] if ": call to new helper" in l)
        for b in data["bodies"]:
            if b["path"] in touched and b["path"] not in dropped:
                guarded("diverging unwrap_or_else", diverging_unwrap_or_else, b, bodies, log)
                for what, fn_ in (("local closure calls", lambda b_: inline_closure_calls(b_, bodies, log)),
                                  ("bool::then desugaring", lambda b_: desugar_bool_then(b_, bodies, log)),
                                  ("retain desugaring", lambda b_: desugar_retain(b_, bodies, known_uses, log)),
                                  ("Option combinator desugaring", lambda b_: desugar_option_combinators(b_, bodies, known_uses, log)),
                                  ("adaptor desugaring", lambda b_: desugar_body(b_, bodies, known_uses, log))):
                    r = guarded(what, fn_, b)
                    if r:
                        spliced_closures |= r
                if b["path"] not in KNOWN_PHIJOIN and b["path"] not in KNOWN_ORPAT and b["path"] not in KNOWN_MATCHVAL:
                    guarded("jump threading", thread_bool_jumps, b, log)
                    guarded("match value joins", unmerge_phi_joins, b, log)
                    guarded("loops over nothing", prune_loops_over_nothing, b, log)
    for b in data["bodies"]:
        if b.get("derived") or b["path"] in dropped:
            continue
        if guarded("tuple splitting", split_tuples, b, log) or b.get("_fold"):
            guarded("accumulator threading", thread_accumulators, b, log)
        try:
            devirtualise(b, log)
        except Exception as e:
            log.append("%s: devirtualisation failed: %s" % (b["path"], e))
        guarded("devirtualisation of chosen functions", devirtualise_choice, b, log)
        guarded("unwrap of built options", split_known_unwraps, b, log)
        try:
            thread_bool_jumps(b, log)
        except Exception as e:
            log.append("%s: jump threading failed: %s" % (b["path"], e))
    # closures that are no longer referenced by any closure aggregate feeding a real call are dropped with their users
    referenced = set()
    for b in data["bodies"]:
        if b["path"] in dropped:
            continue
        for blk in b["blocks"]:
            t = blk["term"]
            if t["k"] != "call":
                continue
            for a in t["args"]:
                g = closure_of_operand(b, a, bodies)
                if g is not None:
                    referenced.add(g["path"])
    drop_closures = set(p for p in spliced_closures if p not in referenced)
    # closures of dropped helpers
    for p in list(bodies):
        if is_closure(bodies[p]) and any(p.startswith(h + "::{closure") for h in dropped) and p not in referenced:
            drop_closures.add(p)
    data["bodies"] = [b for b in data["bodies"] if b["path"] not in dropped and b["path"] not in drop_closures]
    data["prep_log"] = log
    return data


NOT_PROTECTED = {("opts::Opts::new", "map")}  # rules handle the loop form
DORMANT = ["analyzer::ast::new_targets", "analyzer::utils::get_solidity_major_version", "analyzer::utils::get_solidity_minor_version", "analyzer::utils::get_solidity_patch_version"]


def write_known(facts, path=KNOWN_FILE):
    # which functions of the reference tree have or-pattern / match-value shapes is asked without the size limit on the arm body: such a function keeps
    # its merged shape (the one the rules were written against) however a later edit changes the size of its arms
    global OR_PATTERN_BODY_LIMIT
    saved_limit = OR_PATTERN_BODY_LIMIT
    OR_PATTERN_BODY_LIMIT = 400
    try:
        _write_known(facts, path)
    finally:
        OR_PATTERN_BODY_LIMIT = saved_limit


def _write_known(facts, path=KNOWN_FILE):
    fns, uses = set(), set()
    for c in facts.values():
        bodies = {b["path"]: b for b in c["bodies"]}
        for b in c["bodies"]:
            if not is_closure(b):
                fns.add(b["path"])
            for _bi, t, fn in calls_of(b):
                for a in t["args"]:
                    if closure_of_operand(b, a, bodies) is not None:
                        nm = fn["path"][len(ITER):] if fn["path"].startswith(ITER) else fn["path"]
                        if (b["path"], nm) not in NOT_PROTECTED:
                            uses.add((b["path"], nm))
    plain = set()
    for c in facts.values():
        for b in c["bodies"]:
            for _bi, t, fn in calls_of(b):
                if fn["path"] == ITER + "collect":
                    plain.add(b["path"])
    pext = set()
    for c in facts.values():
        for b in c["bodies"]:
            for _bi, t, fn in calls_of(b):
                if fn["path"] == "std::iter::Extend::extend":
                    pext.add(b["path"])
    orp = set()
    for c in facts.values():
        for b in c["bodies"]:
            lg = []
            unmerge_or_patterns(copy.deepcopy(b), lg)
            if lg:
                orp.add(b["path"])
    sigs, adts = {}, {}
    for ctype, c in facts.items():
        sigs[ctype] = signatures(c)
        adts[ctype] = adt_fingerprints(c)
    mvf = set()
    for c in facts.values():
        for b in c["bodies"]:
            if b.get("derived"):
                continue
            b2, lg = copy.deepcopy(b), []
            try:
                rewrite_idioms(b2, []); desugar_try(b2, []); thread_bool_jumps(b2, [])
                if b2["path"] not in orp:
                    unmerge_or_patterns(b2, [])
                unmerge_match_values(b2, lg)
            except Exception:
                lg = ["?"]
            if lg:
                mvf.add(b["path"])
    alf = set()
    for c in facts.values():
        for b in c["bodies"]:
            if b.get("derived"):
                continue
            b2, lg = copy.deepcopy(b), []
            try:
                rewrite_idioms(b2, []); desugar_try(b2, []); thread_bool_jumps(b2, [])
                unroll_literal_array_loops(b2, lg)
            except Exception:
                lg = ["?"]
            if lg:
                alf.add(b["path"])
    pjf = set()  # (filled in by a second pass over the real pipeline: see phi_join_pass)
    json.dump({"phi_join_fns": sorted(pjf), "array_loop_fns": sorted(alf), "match_value_fns": sorted(mvf), "adts": adts, "signatures": sigs, "signatures_comment": "per crate: parameter / result types and local callers / callees of every "
               "function of the reference tree, used only to recognise a function that was renamed or moved (prep.recognise_renames)", "comment": "function inventory of the reference tree (rules are anchored on these names); closure-taking calls of the reference tree; "
                          "functions of the reference tree with variable-binding or-patterns",
               "functions": sorted(fns), "closure_uses": sorted(list(u) for u in uses), "or_pattern_fns": sorted(orp), "plain_collects": sorted(plain), "plain_extends": sorted(pext),
               "dormant_comment": "helpers without a caller in the reference tree and not named by any rule: if a change starts calling one it is treated like a new helper",
               "dormant": DORMANT}, open(path, "w"), indent=1)


def phi_join_pass(facts, path=KNOWN_FILE):
    """functions of the reference tree in which `unmerge_phi_joins` would fire when the whole pipeline runs with the lists just written"""
    global KNOWN_PHIJOIN
    known, known_uses = load_known()
    KNOWN_PHIJOIN = set()
    pjf = set()
    for c in facts.values():
        d2 = preprocess(copy.deepcopy(c), known=known, known_uses=known_uses)
        for line in d2.get("prep_log", []):
            if "chosen by a match given their own copy" in line:
                pjf.add(line.split(": ", 1)[0])
    d = json.load(open(path))
    d["phi_join_fns"] = sorted(pjf)
    json.dump(d, open(path, "w"), indent=1)
    KNOWN_PHIJOIN = pjf


if __name__ == "__main__":
    import sys
    sys.path.insert(0, HERE)
    import facts as F
    if sys.argv[1:2] == ["--write-known"]:
        facts_ = F.load(sys.argv[2] if len(sys.argv) > 2 else F.REPO)
        write_known(facts_)
        phi_join_pass(facts_)
        print("written", KNOWN_FILE)
