"""C05 — expression-level gas detectors flag exactly their documented pattern (DESIGN 5/C05, section 8.1)."""
from runner import Ob
from rules import depend
import sites as S
import summary
from rules import detectors as D
from rules import speccmp
from rules import incdec

DETECTORS = {
    "AddressBalance": "address_balance", "AddressZero": "address_zero", "BoolEqualsBool": "bool_equals_bool",
    "AssignUpdateArrayValue": "assign_update_array_value", "CacheArrayLength": "cache_array_length", "MultipleRequire": "multiple_require",
    "OptimalComparison": "optimal_comparison", "ShiftMath": "shift_math", "SolidityKeccak256": "solidity_keccak256", "SolidityMath": "solidity_math",
}

META = {
    "level": "other",
    "rule": "per detector and reported location: must => code and code => envelope, decided by ROBDD over the atoms that occur (variant tests on one path are "
            "mutually exclusive); plus the structural rule for increment_decrement; non-trivial = every implication with at least one atom",
    "explanation": "For each of the 11 expression-level detectors (discovered from the dispatch) the set of reported locations and, per location, the guard formula "
                   "are extracted from MIR (searched kinds and search root are part of the location's access path; local predicates and boolean flags are expanded "
                   "with parameters substituted) and compared with the machine-readable form of DESIGN section 8.1 (specs/detectors.spec): every canonical MUST form "
                   "implies the code's condition, and the code's condition implies the MUST-NOT envelope. With C01 (every node is visited) and C02 (location -> line) "
                   "this is an argument over all programs. increment_decrement: the exemption set is built only from prefix forms below statements of unchecked blocks "
                   "and subtracted from all four inc/dec kinds found in the whole file.",
    "assumptions": ["u128::is_power_of_two / str::parse::<u128> are std's (the numeric meaning of 'power of two' is theirs)",
                    "DESIGN section 8 / specs/detectors.spec is the oracle (validation of code against a written spec)"],
    "floors": {"R05.walker": 1, "R05.lines": 1, "R05.must": 17, "R05.mustnot": 17, "R05.incdec": 6},
}


def run(ctx, crate):
    obs = []
    # occurrences count wherever they are nested: inherited from C01 (the search reaches every syntactic position)
    obs.append(depend.inherited(ctx, crate, "R05.walker", "analyzer::ast::walk_node_for_targets", "the search reaches every nested position (C01's obligations on the walker)",
                                "C01", lambda o: o.rule in ("R01.children", "R01.order", "R01.once", "R01.uncond", "R01.preorder", "R01.loops", "R01.entry"),
                                example="the pattern inside !( .. ) or inside a catch body"))
    # "a line is reported": the line is the detector's location converted by the shared lookup (C02's obligations on the line function and its use)
    obs.append(depend.inherited(ctx, crate, "R05.lines", "analyzer::utils::get_line_number", "a finding's line is the line its construct begins on (C02's obligations on the line lookup)",
                                "C02", lambda o: o.rule in ("R02.canon", "R02.range", "R02.plumb"), example="a multi-byte character in a comment before the construct"))
    spec = speccmp.load_spec()
    sm = summary.Summ(crate)
    d = D.Dispatch(crate, "optimizations")
    if not d.ok or d.problems:
        return [Ob("R05.must", d.path, "dispatch analysable", False, found=d.problems if d.ok else "missing")]
    for variant, name in sorted(DETECTORS.items()):
        s = d.table.get(variant)
        if s is None or name not in spec:
            obs.append(Ob("R05.must", d.path, "%s is dispatched and specified" % name, False))
            continue
        body = crate.bodies.get(s.resolved) or crate.bodies.get(s.path)
        obs += speccmp.compare("R05", crate, sm, body, spec[name])
    s = d.table.get("IncrementDecrement")
    if s is None:
        obs.append(Ob("R05.incdec", d.path, "increment_decrement is dispatched", False))
    else:
        obs += incdec.check(crate, sm, crate.bodies.get(s.resolved) or crate.bodies.get(s.path))
    return obs
