"""Comparison of a detector's extracted summary with its spec (E5): per reported path, must => code => may."""
import os
from runner import Ob, VERIF
import boolalg as B
import summary
import specdsl
from core import show

_SPEC = None


def load_spec():
    global _SPEC
    if _SPEC is None:
        with open(os.path.join(VERIF, "specs", "detectors.spec"), encoding="utf-8") as fh:
            _SPEC = specdsl.parse_spec(fh.read())
    return _SPEC


def model_str(m, limit=8):
    if not m:
        return ""
    items = sorted(m.items(), key=lambda kv: (not kv[1], kv[0]))
    return ", ".join(("" if v else "NOT ") + shorten(k) for k, v in items[:limit])


def shorten(a):
    return a if len(a) < 140 else a[:60] + " … " + a[-70:]



import re as _re
import itertools as _it
_TAG = _re.compile(r"\[\*(<?)#(\d+|\?)\]")


def _list_before(a, pos):
    """the text of the term that ends at a[pos] (the list a bound element is taken from)"""
    depth = 0
    i = pos - 1
    while i >= 0:
        ch = a[i]
        if ch in ")]}":
            depth += 1
        elif ch in "([{":
            if depth == 0:
                break
            depth -= 1
        elif depth == 0 and ch in ",;& |" and not (ch == "|" and False):
            break
        i -= 1
    return a[i + 1:pos]


def _retag(a, table, order, perm=None):
    """atom text with the numbers made canonical per list; table: list text -> {old number: new number} (filled on the way)"""
    out = ""
    pos = 0
    for m in _TAG.finditer(a):
        out += a[pos:m.start()]
        key = _list_before(out, len(out))
        if perm is None:
            mp = table.setdefault(key, {})
            if m.group(2) not in mp:
                mp[m.group(2)] = str(len(mp) + 1)
                if key not in order:
                    order.append(key)
            n = mp[m.group(2)]
        else:
            n = perm.get(key, {}).get(m.group(2), m.group(2))
        out += "[*%s#%s]" % (m.group(1), n)
        pos = m.end()
    return out + a[pos:]


_ALT = _re.compile(r"↓\{([A-Za-z0-9_|]+)\}")


_UNIT_EQ = _re.compile(r"^eq\(((?:[A-Za-z_][A-Za-z0-9_]*::)+)([A-Z][A-Za-z0-9_]*)\(\), (.*)\)$")
_UNIT_EQ_R = _re.compile(r"^eq\((.*), ((?:[A-Za-z_][A-Za-z0-9_]*::)+)([A-Z][A-Za-z0-9_]*)\(\)\)$")


_LAST_SOME = _re.compile(r"^is\(slice::(?:last|first)\((.*)\); Some\)$")


def _unit_variant_eq(a):
    if not isinstance(a, str):
        return a
    m = _LAST_SOME.match(a)
    if m and m.group(1).count("(") == m.group(1).count(")"):
        return "gt(len(%s), 0)" % m.group(1)  # a list has a last (first) element iff it is not empty
    m = _UNIT_EQ.match(a)
    if m:
        return "is(%s; %s)" % (m.group(3), m.group(2))
    m = _UNIT_EQ_R.match(a)
    if m and m.group(1).count("(") == m.group(1).count(")"):
        return "is(%s; %s)" % (m.group(1), m.group(3))
    return a


def expand_alternatives(f):
    """an atom about a path through an or-pattern (`P(x↓{A|B}.1)`, what `A(_, l, _) | B(_, l, _) => P(l)` extracts to) is, by definition, `x is A and
    P(x↓A.1), or x is B and P(x↓B.1)`: written out on both sides, so that one arm for both alternatives and one arm per alternative compare equal"""
    def fn(key):
        if not isinstance(key, str):
            return None
        m = _ALT.search(key)
        if not m or m.group(1).count("|") > 2:
            return None  # (an arm for a dozen alternatives stays one arm: written out it is a dozen copies of every atom)
        prefix = _list_before(key, m.start())
        out = []
        for a in m.group(1).split("|"):
            k2 = key[:m.start()] + "↓" + a + key[m.end():]
            out.append(B.And(B.atom("is(%s; %s)" % (prefix, a)), expand_alternatives(B.atom(k2))))
        return B.Or(*out)
    return B.subst_atoms(f, fn)


def canonical_tags(code, spec_must, spec_may):
    ct, co, st, so = {}, [], {}, []
    # (atoms are visited in a fixed order so that the numbering does not depend on hashing)
    def canon(fs, table, order):
        names = sorted(set(a for f in fs.values() for a in B.atoms_of(f)))
        ren = {a: _retag(a, table, order) for a in names}
        return {ps: B.rename(f, lambda a: ren.get(a, a)) for ps, f in fs.items()}
    code = canon(code, ct, co)
    both = dict(("must|" + k, v) for k, v in spec_must.items())
    both.update(("may|" + k, v) for k, v in spec_may.items())
    both = canon(both, st, so)
    spec_must = {k[5:]: v for k, v in both.items() if k.startswith("must|")}
    spec_may = {k[4:]: v for k, v in both.items() if k.startswith("may|")}
    multi = [k for k in co if len(ct[k]) > 1]
    if not multi or len(multi) > 3 or any(len(ct[k]) > 4 for k in multi):
        return code, spec_must, spec_may
    satoms = set()
    for f in list(spec_must.values()) + list(spec_may.values()):
        satoms |= set(B.atoms_of(f))
    best = None
    nums = {k: sorted(ct[k].values()) for k in multi}
    for choice in _it.product(*[list(_it.permutations(nums[k])) for k in multi]):
        perm = {k: dict(zip(nums[k], c)) for k, c in zip(multi, choice)}
        # (renumbering an outer list's variables changes the text of the inner lists' keys: the inner numbering is per list text and stays valid)
        ren = {ps: B.rename(f, lambda a: _retag(a, None, None, perm)) for ps, f in code.items()}
        score = 0
        for ps in ren:
            if ps in spec_must:
                score += int(B.implies(spec_must[ps], ren[ps])[0]) + int(B.implies(ren[ps], spec_may[ps])[0])
        common = sum(len(set(B.atoms_of(f)) & satoms) for f in ren.values())
        if best is None or (score, common) > best[0]:
            best = ((score, common), ren)
    return best[1], spec_must, spec_may


def compare(rule, crate, sm, body, det, label=None, subst=None):
    """-> list of Ob. `subst`: optional {param index: term} substitution applied to the code side (shared helper bodies)."""
    obs = []
    name = label or det.name
    fn = body.path
    try:
        reps = sm.reports(body)
    except summary.Unanalysable as e:
        return [Ob(rule + ".analysable", fn, "%s: summary extraction failed" % name, False, found=str(e),
                   expected="an idiom the engines model (fail closed)")]
    # every loop that (transitively) contains a reporting site must run to exhaustion: a `break` / early `return` after the first hit
    # silently drops later occurrences
    import order as O
    rep_blocks = set(s.bb for (_, _, s) in reps if s is not None and s.body is body)
    for lp in O.loops_of_body(body):
        if not (rep_blocks & lp.blocks):
            continue
        normal, extra = lp.exits()
        # exits that merely skip to the next outer iteration (`continue 'outer`) are not exits of the outer search loop
        real = [(x, t) for (x, t) in extra]
        obs.append(Ob(rule + ".exhaustive", fn, "%s: the loop over %s reports every occurrence (no early exit)" % (name, shorten(show(lp.iterable))), not real,
                      site=lp.site.where, expected="exhaustion is the only exit of a loop that reports",
                      found=("early exit at line(s) %s" % sorted(set(body.blocks[x]["tloc"]["line"] for (x, t) in real))) if real else "runs to exhaustion",
                      example="two occurrences of the pattern in one file"))
    code = {}
    sites = {}
    for (t, f, s) in reps:
        if subst:
            import core
            t = core.subst_params(t, subst)
            f = sm.subst(f, subst)
        ps = show(t)
        code[ps] = B.Or(code.get(ps, B.F), sm.render(f))
        sites.setdefault(ps, s.where)
    spec_must, spec_may = {}, {}
    for (ps, must, may, ln) in det.reports:
        spec_must[ps] = B.Or(spec_must.get(ps, B.F), must)
        spec_may[ps] = B.Or(spec_may.get(ps, B.F), may)
    # or-patterns (`A(loc, ..) | B(loc, ..) => insert(loc)`) report  base↓{A|B}.k : split into one report per alternative
    import re as _re2
    alt_re = _re2.compile(r"^(.*)↓\{([A-Za-z0-9_|]+)\}(.*)$")
    for ps in list(code):
        m = alt_re.match(ps)
        if m and ps not in spec_must:
            f = code.pop(ps)
            w = sites.pop(ps, None)
            for v in m.group(2).split("|"):
                compact = "%s↓{%s}" % (m.group(1), m.group(2))
                single = "%s↓%s" % (m.group(1), v)
                fv = B.And(B.atom("is(%s; %s)" % (m.group(1), v)), B.rename(f, lambda a: a.replace(compact, single)))
                pv = single + m.group(3)
                code[pv] = B.Or(code.get(pv, B.F), fv)
                sites.setdefault(pv, w)
    # bound element variables ([*#k]): what distinguishes two of them is the list they range over and, for two variables over the same list, their
    # number. The numbers are therefore made canonical per list (1, 2, .. in order of first occurrence) on both sides - whether two existentials over
    # different lists were produced by one flag or by two makes no difference - and the remaining freedom (which of two variables over the same
    # list is #1) is searched
    # `x == Kind::Variant` and `matches!(x, Kind::Variant)` / a match arm are one test: eq(Kind::Variant(), x)  ->  is(x; Variant)
    code = {ps: B.rename(f, _unit_variant_eq) for ps, f in code.items()}
    spec_must = {ps: B.rename(f, _unit_variant_eq) for ps, f in spec_must.items()}
    spec_may = {ps: B.rename(f, _unit_variant_eq) for ps, f in spec_may.items()}
    code = {ps: expand_alternatives(f) for ps, f in code.items()}
    spec_must = {ps: expand_alternatives(f) for ps, f in spec_must.items()}
    spec_may = {ps: expand_alternatives(f) for ps, f in spec_may.items()}
    code, spec_must, spec_may = canonical_tags(code, spec_must, spec_may)
    for ps in sorted(set(code) | set(spec_must)):
        short = shorten(ps)
        if ps not in spec_must:
            obs.append(Ob(rule + ".report", fn, "%s: reports a location the spec does not list: %s" % (name, short), False, site=sites.get(ps),
                          expected="reported locations: %s" % [shorten(x) for x in spec_must], found=B.show(code[ps])[:300]))
            continue
        if ps not in code:
            obs.append(Ob(rule + ".report", fn, "%s: never reports %s" % (name, short), False,
                          expected="an insert of this location when %s" % B.show(spec_must[ps])[:300], found=[shorten(x) for x in code]))
            continue
        ok1, m1 = B.implies(spec_must[ps], code[ps])
        obs.append(Ob(rule + ".must", fn, "%s: every canonical occurrence is reported at %s" % (name, short), ok1, site=sites.get(ps),
                      expected="spec => code", found="holds" if ok1 else "missed when: " + model_str(m1, 14)))
        ok2, m2 = B.implies(code[ps], spec_may[ps])
        obs.append(Ob(rule + ".mustnot", fn, "%s: nothing outside the pattern is reported at %s" % (name, short), ok2, site=sites.get(ps),
                      expected="code => spec envelope", found="holds" if ok2 else "reported although: " + model_str(m2, 14)))
    return obs
