"""C08 — mutability suggestions are never made for something the file writes to (DESIGN 5/C08, section 8.4)."""
from runner import Ob
from rules import depend
import sites as S
import terms as T
import core
import summary
import boolalg as B
from core import show
from rules import detectors as D
from rules import speccmp
from rules.walkinfo import WalkInfo

META = {
    "level": "other",
    "rule": "per candidate-table detector: the searched write kinds (derived from the Expression ADT), one obligation per write kind for its removing consumer, "
            "the search roots, the candidate table's provenance, the unconditional report of the remaining candidates; helper tables and sstore against their specs; "
            "non-trivial = all",
    "explanation": "R08.writes: constant_variables and immutable_variables search exactly the 15 write kinds (all Expression variants named Assign* plus the four "
                   "increments/decrements, read from the ADT); memory_to_calldata searches Assign. R08.remove: for every searched kind the consuming arm removes the "
                   "name of the directly written identifier (for memory_to_calldata also the base identifier of an index expression) from the candidate table, guarded "
                   "only by the kind / identifier tests (and the containment test); nothing is inserted into the table after it is built. R08.roots: constant_variables "
                   "searches the whole file; immutable_variables removes on searches rooted at every non-constructor function member; the constructor-assignment search "
                   "is rooted at the constructor; memory_to_calldata searches the function's own body and skips constructors. R08.candidates: the tables come from the "
                   "helpers with the flags the spec names, and the helpers' own summaries equal their specs. R08.report: every remaining candidate is reported with its "
                   "recorded location, after all removals. sstore is compared with its spec directly.",
    "assumptions": ["state-variable names are unique and not shadowed (property quantifier)", "C01: the searches reach every syntactic position",
                    "HashMap::remove / contains_key / get contracts"],
    "floors": {"R08.walker": 1, "R08.lines": 1, "R08.writes": 3, "R08.remove": 31, "R08.roots": 4, "R08.candidates": 3, "R08.report": 3},
}

OPT = "analyzer::optimizations::"
TABLE_FN = "analyzer::utils::get_32_byte_storage_variables"
CTOR_FN = OPT + "immutable_variables::get_storage_variables_assigned_in_constructor"
MEMARGS_FN = OPT + "memory_to_calldata::get_function_definition_memory_args"
FILE = "Node::SourceUnit(arg1)"


def write_kinds(crate):
    adt = crate.adts.get("solang_parser::pt::Expression")
    if not adt:
        return None
    out = []
    for v in adt["variants"]:
        n = v["name"]
        if n.startswith("Assign") or n in ("PreIncrement", "PreDecrement", "PostIncrement", "PostDecrement"):
            out.append(n)
    return sorted(out)


def removal_check(obs, crate, body, table, search_term, kinds, label, extra_ctx=(), also_subscript=False):
    """every kind has a consumer that removes (n↓K.1↓Variable.0.name) from `table`"""
    ss = S.call_sites(body)
    node = core.mk_proj(core.mk_proj(("elem", search_term), ("dc", "Expression")), ("f", 0, "0"))
    names = {node: "n", table: "TABLE"}
    removes = [s for s in ss if s.path.endswith("::remove") and s.args and s.args[0] == table]
    for k in kinds:
        target = core.mk_proj(core.mk_proj(node, ("dc", k)), ("f", 1, "1"))
        name_t = None
        found = []
        for s in removes:
            key = s.args[1]
            # key = target↓Variable.0.name
            if show(key, names) == "n↓%s.1↓Variable.0.name" % k:
                g = S.block_guard(body, s.bb, names)
                found.append((s, g))
        ok = False
        why = "no remove(n↓%s.1↓Variable.0.name)" % k
        for (s, g) in found:
            if not g:
                why = "guard %s" % S.guard_str(g)
                continue
            need = {"is(n; %s)" % k, "is(n↓%s.1; Variable)" % k}
            allowed = need | {"HashMap::contains_key(TABLE, n↓%s.1↓Variable.0.name)" % k} | set(extra_ctx)
            good = True
            for c in g:
                atoms = set(c)
                if not (need <= atoms and atoms <= allowed):
                    good = False
                    why = "extra conditions: %s" % sorted(atoms - allowed) if atoms - allowed else "missing: %s" % sorted(need - atoms)
            ok = ok or good
        obs.append(Ob("R08.remove", body.path, "%s: a direct write by %s removes the written identifier from the candidates" % (label, k), ok,
                      expected="remove(name of the %s target) guarded only by the kind / identifier tests" % k, found="ok" if ok else why))
    if also_subscript:
        k = "Assign"
        ok = False
        for s in removes:
            if show(s.args[1], names) == "n↓Assign.1↓ArraySubscript.1↓Variable.0.name":
                g = S.block_guard(body, s.bb, names)
                need2 = {"is(n; Assign)", "is(n↓Assign.1; ArraySubscript)", "is(n↓Assign.1↓ArraySubscript.1; Variable)"}
                if g and all(need2 <= set(c) and set(c) <= need2 | set(extra_ctx) for c in g):
                    ok = True
        obs.append(Ob("R08.remove", body.path, "%s: an assignment through an index removes the indexed identifier" % label, ok))
    # every write found by the search is consumed: the loops around the removals run to exhaustion
    import order as O
    early = []
    rblocks = set(s.bb for s in removes)
    for lp in O.loops_of_body(body):
        if rblocks & lp.blocks:
            normal, extra = lp.exits()
            early += [body.blocks[x]["tloc"]["line"] for (x, t) in extra]
    obs.append(Ob("R08.remove", body.path, "%s: every write is looked at (the removal loops run to exhaustion)" % label, not early,
                  found=("early exit at line(s) %s" % sorted(set(early))) if early else "exhaustion only"))
    # nothing (re)inserted
    ins = [s for s in ss if s.args and s.args[0] == table and s.path.endswith(("::insert", "::extend", "::entry"))]
    obs.append(Ob("R08.remove", body.path, "%s: nothing is added to the candidates after they are built" % label, not ins, found=[s.where for s in ins] or "none"))
    return removes


def report_check(obs, crate, sm, body, table, removes, label, field):
    """the remaining candidates are all reported, after the removals"""
    try:
        reps = sm.reports(body)
    except summary.Unanalysable as e:
        obs.append(Ob("R08.report", body.path, "%s: report loop analysable" % label, False, found=str(e)))
        return
    ok = False
    detail = []
    for (t, f, s) in reps:
        fs = B.show(sm.render(f, {table: "TABLE"}))
        detail.append("%s when %s" % (show(t, {table: "TABLE"}), fs[:80]))
        if show(t, {table: "TABLE"}) == "TABLE[*]" + field:
            uncond = True
            g = s.guard
            # only context atoms that also guard the table's construction are allowed
            after = all(body.reaches(r.bb, s.bb) and not body.reaches(s.bb, r.bb) or _same_outer(body, r.bb, s.bb) for r in removes) if removes else True
            ok = after and len(body.loops_of(s.bb)) >= 1
    obs.append(Ob("R08.report", body.path, "%s: every remaining candidate is reported at its recorded location, after all removals" % label, ok,
                  expected="for c in TABLE { insert(c%s) } after the removal loops" % field, found=detail))


def _same_outer(body, a, b):
    """a and b are in the same iteration of an enclosing loop and a's loop finishes before b (b not in a's innermost loop)"""
    la, lb = body.loops_of(a), body.loops_of(b)
    if not la:
        return False
    inner = la[-1]
    return b not in body.loops[inner] and body.reaches_acyclic(inner, b)


def run(ctx, crate):
    obs = []
    # occurrences count wherever they are nested: inherited from C01 (the search reaches every syntactic position)
    obs.append(depend.inherited(ctx, crate, "R08.walker", "analyzer::ast::walk_node_for_targets", "the search reaches every nested position (C01's obligations on the walker)",
                                "C01", lambda o: o.rule in ("R01.children", "R01.order", "R01.once", "R01.uncond", "R01.preorder", "R01.loops", "R01.entry"),
                                example="the pattern inside !( .. ) or inside a catch body"))
    # "a line is reported": the line is the detector's location converted by the shared lookup (C02's obligations on the line function and its use)
    obs.append(depend.inherited(ctx, crate, "R08.lines", "analyzer::utils::get_line_number", "a finding's line is the line its construct begins on (C02's obligations on the line lookup)",
                                "C02", lambda o: o.rule in ("R02.canon", "R02.range", "R02.plumb"), example="a multi-byte character in a comment before the construct"))
    spec = speccmp.load_spec()
    sm = summary.Summ(crate)
    W15 = write_kinds(crate)
    d = D.Dispatch(crate, "optimizations")
    if not d.ok or d.problems or W15 is None:
        return [Ob("R08.writes", D.ANALYZE["optimizations"], "dispatch / ADT analysable", False)]
    obs.append(Ob("R08.writes", "solang_parser::pt::Expression", "write kinds derived from the ADT: %d" % len(W15), len(W15) == 15, found=W15))

    def body_of(variant):
        s = d.table.get(variant)
        return (crate.bodies.get(s.resolved) or crate.bodies.get(s.path)) if s else None

    # ---------------------------------------------------------------- constant_variables
    b = body_of("ConstantVariables")
    if b is None:
        obs.append(Ob("R08.writes", "constant_variables", "dispatched", False))
    else:
        ss = S.call_sites(b)
        srch = [s for s in ss if s.path in core.SEARCH_FNS]
        tabs = [s for s in ss if s.path == TABLE_FN]
        okc = len(tabs) == 1 and [show(a) for a in tabs[0].args] == ["arg1", "True", "False"]
        obs.append(Ob("R08.candidates", b.path, "constant_variables: candidates = non-constant state variables", okc, expected="get_32_byte_storage_variables(file, true, false)",
                      found=[show(a) for a in tabs[0].args] if tabs else None))
        if len(srch) == 1 and tabs:
            kinds = core.search_kinds(srch[0].args[0])
            obs.append(Ob("R08.writes", b.path, "constant_variables searches all 15 write kinds", kinds is not None and sorted(kinds) == W15,
                          expected=W15, found=sorted(kinds) if kinds else None, example="a state variable only written by x <<= 1"))
            obs.append(Ob("R08.roots", b.path, "constant_variables searches the whole file", show(srch[0].args[1]) == FILE, found=show(srch[0].args[1])))
            rem = removal_check(obs, crate, b, tabs[0].result, srch[0].result, W15, "constant_variables")
            report_check(obs, crate, sm, b, tabs[0].result, rem, "constant_variables", ".1.1")
        else:
            obs.append(Ob("R08.writes", b.path, "constant_variables: one search, one table", False, found="searches=%d tables=%d" % (len(srch), len(tabs))))
    # ---------------------------------------------------------------- immutable_variables
    b = body_of("ImmutableVarialbes")
    if b is None:
        obs.append(Ob("R08.writes", "immutable_variables", "dispatched", False))
    else:
        ss = S.call_sites(b)
        tabs = [s for s in ss if s.path == CTOR_FN]
        base = [s for s in ss if s.path == TABLE_FN]
        okc = len(tabs) == 1 and len(base) == 1 and [show(a) for a in base[0].args] == ["arg1", "True", "True"] and tabs[0].args[0] == ("param", 1) and tabs[0].args[1] == base[0].result
        obs.append(Ob("R08.candidates", b.path, "immutable_variables: candidates = constructor-assigned entries of the non-constant, non-immutable table", okc,
                      expected="get_storage_variables_assigned_in_constructor(file, get_32_byte_storage_variables(file, true, true))",
                      found=[show(a)[:80] for a in tabs[0].args] if tabs else None))
        srch = [s for s in ss if s.path in core.SEARCH_FNS and core.search_kinds(s.args[0]) and len(core.search_kinds(s.args[0])) > 1]
        if len(srch) == 1 and tabs:
            kinds = core.search_kinds(srch[0].args[0])
            obs.append(Ob("R08.writes", b.path, "immutable_variables searches all 15 write kinds", sorted(kinds) == W15, expected=W15, found=sorted(kinds)))
            root = show(srch[0].args[1])
            cp = "search{FunctionDefinition}(search{ContractDefinition}(%s)[*])[*]" % FILE
            okr = root == "Node::ContractPart(%s↓ContractPart.0)" % cp
            g = S.block_guard(b, srch[0].bb, {})
            ctx_atoms = ["is(%s↓ContractPart.0; FunctionDefinition)" % cp, "!is(%s↓ContractPart.0↓FunctionDefinition.0.ty; Constructor)" % cp]
            okg = g is not None and len(g) == 1 and sorted(g[0]) == sorted(ctx_atoms)
            obs.append(Ob("R08.roots", b.path, "immutable_variables: writes are searched in every non-constructor function member of every contract", okr and okg,
                          expected="search rooted at each function member, guarded only by `not a constructor`", found="root=%s guard=%s" % (root[-70:], S.guard_str(g)[-160:])))
            rem = removal_check(obs, crate, b, tabs[0].result, srch[0].result, W15, "immutable_variables", extra_ctx=ctx_atoms)
            report_check(obs, crate, sm, b, tabs[0].result, rem, "immutable_variables", ".1")
        else:
            obs.append(Ob("R08.writes", b.path, "immutable_variables: one write search, one table", False, found="searches=%d tables=%d" % (len(srch), len(tabs))))
    hb = crate.bodies.get(CTOR_FN)
    if hb is None:
        obs.append(Ob("R08.roots", CTOR_FN, "anchor missing", False))
    else:
        obs += speccmp.compare("R08.helper", crate, sm, hb, spec["constructor_assigned"], label="constructor-assigned candidates")
        srch = [s for s in S.call_sites(hb) if s.path in core.SEARCH_FNS and core.search_kinds(s.args[0]) == ["Assign"]]
        cp = "search{FunctionDefinition}(search{ContractDefinition}(%s)[*])[*]" % FILE
        okr = len(srch) == 1 and show(srch[0].args[1]) == "Node::ContractPart(%s↓ContractPart.0)" % cp
        obs.append(Ob("R08.roots", hb.path, "immutable_variables: 'assigned in a constructor' searches the constructor, not the file", okr,
                      expected="search{Assign} rooted at the constructor member", found=show(srch[0].args[1])[-90:] if srch else None,
                      example="contract A { uint x; uint y = (x = 1); } contract B { constructor(){} }"))
    # ---------------------------------------------------------------- memory_to_calldata
    b = body_of("MemoryToCalldata")
    if b is None:
        obs.append(Ob("R08.writes", "memory_to_calldata", "dispatched", False))
    else:
        ss = S.call_sites(b)
        tabs = [s for s in ss if s.path == MEMARGS_FN]
        srch = [s for s in ss if s.path in core.SEARCH_FNS and core.search_kinds(s.args[0]) == ["Assign"]]
        outer = [s for s in ss if s.path in core.SEARCH_FNS and core.search_kinds(s.args[0]) == ["FunctionDefinition"]]
        if len(tabs) == 1 and len(srch) == 1 and len(outer) == 1:
            fd = tabs[0].args[0]
            FD = show(fd)
            okc = show(outer[0].args[1]) == FILE and T.contains(fd, outer[0].result)
            obs.append(Ob("R08.candidates", b.path, "memory_to_calldata: candidates = memory parameters of each function definition of the file", okc,
                          found="table of %s ; functions from %s" % (FD[:80], show(outer[0].result)[:60])))
            root = show(srch[0].args[1])
            g = S.block_guard(b, srch[0].bb)
            okr = root == "Node::Statement(%s.body?)" % FD
            not_ctor = ("!eq(FunctionTy::Constructor(), %s.ty)" % FD, "!eq(%s.ty, FunctionTy::Constructor())" % FD)
            okg = bool(g) and all(("is(%s.body; Some)" % FD) in c and any(a in c for a in not_ctor) for c in g)
            obs.append(Ob("R08.roots", b.path, "memory_to_calldata: assignments are searched in the function's own body; constructors are skipped", okr and okg,
                          expected="search{Assign}(fd.body) under `not a constructor`", found="root=%s guard=%s" % (root[-60:], S.guard_str(g)[-200:])))
            ctx_atoms = sorted(set(a for c in (g or []) for a in c))
            rem = removal_check(obs, crate, b, tabs[0].result, srch[0].result, ["Assign"], "memory_to_calldata", extra_ctx=ctx_atoms, also_subscript=True)
            report_check(obs, crate, sm, b, tabs[0].result, rem, "memory_to_calldata", ".1")
            # constructor skip dominates every insert
            ins = [s for s in ss if s.args and s.args[0] == b.val_local(0) and s.path.endswith("::insert")]
            okk = bool(ins)
            for s in ins:
                gi = S.block_guard(b, s.bb)
                okk = okk and bool(gi) and all(any(a in c for a in not_ctor) for c in gi)
            obs.append(Ob("R08.roots", b.path, "memory_to_calldata: nothing is reported for a constructor", okk))
        else:
            obs.append(Ob("R08.writes", b.path, "memory_to_calldata: one table, one assignment search, one function search", False,
                          found="tables=%d searches=%d functions=%d" % (len(tabs), len(srch), len(outer))))
    mb = crate.bodies.get(MEMARGS_FN)
    if mb is None:
        obs.append(Ob("R08.candidates", MEMARGS_FN, "anchor missing", False))
    else:
        obs += speccmp.compare("R08.helper", crate, sm, mb, spec["memory_args"], label="memory parameters")
    # ---------------------------------------------------------------- sstore + the shared table
    b = body_of("Sstore")
    if b is None:
        obs.append(Ob("R08.writes", "sstore", "dispatched", False))
    else:
        obs += speccmp.compare("R08.sstore", crate, sm, b, spec["sstore"])
    tb = crate.bodies.get(TABLE_FN)
    if tb is not None:
        obs += speccmp.compare("R08.table", crate, sm, tb, spec["storage_table"], label="state-variable table")
    return obs
