"""C13 — the report is a deterministic function of the set of findings (DESIGN 5/C13)."""
from runner import Ob
import re
import sites as S
import terms as T
import order as O
from core import show
from rules import dirwalk

META = {
    "level": "other",
    "rule": "one obligation per loop of the code reachable from main / generate_report / analyze_dir (its iteration-order class), "
            "one per order-sensitive sink inside an unordered loop, one per sort sanitizer and its key; non-trivial = loops whose "
            "source is hash-, listing- or discovery-ordered",
    "explanation": "R13.taint: sources = iteration over HashMap/HashSet (default hasher), fs::ReadDir, and Vecs whose order is discovery order "
                   "(collected from such an iterator, or the per-pattern file lists handed to the report generators); sanitizers = sort* on the collected "
                   "Vec with a total key (the pattern's discriminant / Ord of (file, lines)); order-insensitive sinks = set/map inserts and removals, appends to "
                   "the map entry keyed by the loop's own (distinct) key; ordered sinks = String::push_str/+, Vec::push/append whose receiver outlives the loop. "
                   "`map.insert(k, v)` on a map that outlives an unordered loop is a last-one-wins sink unless k is that loop's own distinct key. "
                   "A source reaching an ordered sink unsanitised, or a loop exit other than exhaustion inside an unordered loop, is a violation naming both. "
                   "A local set before an unordered loop and inside it, and read inside it other than by a commutative update of itself, is state carried from one element "
                   "to the next in hash order: a violation as well. "
                   "R13.deferred: analyze_dir pushes (file, lines) in listing order into the returned map; this is discharged only because every consumer sorts "
                   "each per-pattern list before rendering (checked). R13.noseed: no rand / time / pid / env reads in the analysed call graph.",
    "assumptions": ["slice::sort* and Ord for (String, BTreeSet<integer>) are total orders (std contract)",
                    "BTreeSet/BTreeMap iterate in key order (std contract)"],
    "floors": {"R13.loop": 12, "R13.sanitizer": 6, "R13.deferred": 3, "R13.verdicts": 1},
}

MAP_INSERT = ("std::collections::HashMap::<K, V, S, A>::insert", "std::collections::BTreeMap::<K, V, A>::insert", "std::collections::HashMap::<K, V, S>::insert")

SEEDS = ("rand::", "std::time::", "std::process::id", "std::env::var", "std::env::vars", "std::thread::current", "std::collections::hash_map::RandomState::new",
         "std::hash::RandomState::new", "std::time::SystemTime::now", "std::time::Instant::now")


def scope(crate):
    roots = []
    # what the report is made from: the three walks (their results are handed to generate_report by main: R14.applied / R18.once) and the report writer with everything
    # it calls. main's own body and helpers that only feed the terminal (progress lines, a listing on stdout) are not on the way to the report file
    for n in ("report::generation::generate_report",) + dirwalk.SIBLINGS:
        b = crate.bodies.get(n)
        if b is not None:
            roots.append(b)
    return S.reachable_bodies(crate, roots)


def is_generator(body):
    if body.arg_count < 1:
        return False
    t = body.local_ty(1)
    # the findings map: pattern -> [(file name, line collection)]; the line collection's own iteration order is classified at its loop
    return t.startswith("std::collections::HashMap<") and "std::vec::Vec<(std::string::String, std::collections::" in t


def rooted_at_param(t):
    while True:
        if t[0] in ("proj", "elem", "len"):
            t = t[1]
        elif t[0] == "call" and t[1] in ("std::iter::Iterator::collect",) and t[2]:
            t = t[2][0]
        else:
            break
    return t[0] == "param"


def collect_site(body, t, crate):
    """the call site that produced a collect(..) term"""
    if t[0] == "call" and t[1] == "std::iter::Iterator::collect" and t[3]:
        bpath, bb = t[3]
        b2 = crate.bodies.get(bpath)
        if b2 is not None:
            return S.Site(b2, bb, b2.blocks[bb]["term"])
    return None


def _worklist_source(b, it):
    """order class of the loop that fills the work list `it` iterates over, if that loop is unordered"""
    L = it
    while L[0] in ("iter", "enumerate"):
        L = L[1]
    sp = S.single_push_lists(b)
    if L not in sp:
        return None
    pbb = sp[L][0]
    for lp2 in O.loops_of_body(b):
        if pbb in lp2.blocks and lp2.order == "hash":
            return "listing-ordered" if "ReadDir" in lp2.self_ty else "hash-ordered"
    return None


def _root(t):
    while t[0] == "proj":
        t = t[1]
    return t


def _projs(t):
    out = []
    while t[0] == "proj":
        out.append(t[2])
        t = t[1]
    return out


def sort_key_total(crate, sort_site):
    """sort / sort_unstable use Ord; sort_by_key must key on the pattern's discriminant (injective on patterns)"""
    name = sort_site.path.rsplit("::", 1)[-1]
    if name in ("sort", "sort_unstable"):
        return True, "Ord of the element type"
    if name in ("sort_by_key", "sort_unstable_by_key", "sort_by_cached_key") and len(sort_site.args) == 2:
        c = sort_site.args[1]
        if c[0] == "agg" and c[1] == "closure":
            cb = crate.bodies.get(c[2])
            if cb is not None:
                rv = cb.val_local(0)
                # key = (elem.0 as usize) : cast of the discriminant of field 0 of the element
                def is_pattern_discr(x):
                    if x[0] == "cast" and x[1][0] == "discr":
                        fo = T.field_of(x[1][1])
                        return bool(fo and fo[1] == 0 and fo[0] == ("param", 2))
                    return False
                if is_pattern_discr(rv):
                    return True, "discriminant of the pattern"
                if rv[0] == "agg" and rv[1] == "tuple" and any(is_pattern_discr(x) for x in rv[3]):
                    # lexicographic key with a component that is different for any two patterns: no ties, so the (stable) sort leaves nothing to the input order
                    return True, "tuple key containing the discriminant of the pattern"
                return False, "key = %s" % show(rv)
    if name in ("sort_by", "sort_unstable_by") and len(sort_site.args) == 2:
        c = sort_site.args[1]
        if c[0] == "agg" and c[1] == "closure":
            cb = crate.bodies.get(c[2])
            if cb is not None:
                rv = cb.val_local(0)
                # `primary.cmp(..).then_with(|| a.cmp(b))` (any number of then / then_with steps): equal only for equal elements when the last step compares the
                # elements themselves by Ord
                steps = 0
                last = rv
                while last[0] == "call" and last[1].rsplit("::", 1)[-1] in ("then_with", "then") and len(last[2]) == 2 and steps < 6:
                    nxt = last[2][1]
                    if nxt[0] == "agg" and nxt[1] == "closure":
                        nb = crate.bodies.get(nxt[2])
                        nxt = nb.val_local(0) if nb is not None else nxt
                    last = nxt
                    steps += 1
                if last[0] == "call" and last[1] in ("std::cmp::Ord::cmp", "std::cmp::PartialOrd::partial_cmp") and len(last[2]) == 2:
                    a_, b_ = last[2]
                    whole = lambda t_: t_[0] == "param" or (t_[0] == "proj" and t_[2] == ("f", 0, None) and t_[1][0] == "param") or \
                        (t_[0] == "proj" and t_[1][0] == "param" and t_[1][1] == 1)
                    if a_ != b_ and last[1].endswith("Ord::cmp") and all(x[0] in ("param", "proj") for x in (a_, b_)) and \
                            not any(isinstance(e, tuple) and e and e[0] == "f" for x in (a_, b_) for e in _projs(x) if x[0] == "proj" and _root(x)[0] == "param" and _root(x)[1] in (2, 3)):
                        return True, "comparator ends in Ord::cmp of the two elements"
                return False, "comparator = %s" % show(rv)[:120]
    return False, "unrecognised comparator"


from rules.isolation import carried_state


def run(ctx, crate):
    obs = []
    sc = scope(crate)
    gens = [b for b in sc.values() if is_generator(b) and O.loops_of_body(b)]
    walks = {w.body.path: w for w in dirwalk.walks(crate) if w.ok}  # keyed by the body whose loops are examined (the private walker in accumulator style)
    gen_sorted_inner = {}
    for b in sc.values():
        if b.derived:
            continue
        for s in S.call_sites(b):
            for p in {s.path, s.resolved}:
                if p.startswith(SEEDS):
                    obs.append(Ob("R13.noseed", b.path, "per-process value %s" % p, False, site=s.where))
        for lp in O.loops_of_body(b):
            it = lp.iterable
            src = None
            if lp.order == "hash":
                src = "listing-ordered" if "ReadDir" in lp.self_ty else "hash-ordered"
            elif lp.order == "ordered" and _worklist_source(b, it) is not None:
                # a work list filled (by its single push) inside an unordered loop is in that loop's order: what is done for its elements is judged as if done there
                src = _worklist_source(b, it)
            elif lp.order == "ordered":
                cs = collect_site(b, it, crate)
                need = None
                if cs is not None and cs.fn and O.iter_order(cs.fn["gargs"][0]) == "hash":
                    need = "collected from a hash-ordered iterator"
                    dty = cs.term["dest"].get("ty") or ""
                    if dty.startswith(("std::collections::BTreeMap<", "std::collections::BTreeSet<")):
                        # collected into a collection that iterates in key order (Ord of the pattern enum = declaration order, total): that is the sort
                        obs.append(Ob("R13.sanitizer", b.path, "%s into an ordered collection (%s)" % (need, dty.split("<")[0].rsplit("::", 1)[-1]), True, site=cs.where,
                                      expected="sort with a total key before rendering", found="iteration in key order"))
                        need = None
                elif is_generator(b) and rooted_at_param(it) and lp.self_ty.startswith(("std::vec::", "std::slice::", "core::slice::")):
                    need = "discovery-ordered list handed to the generator"
                if need:
                    ss = O.sorted_before(b, it, lp.site.bb)
                    if ss is None:
                        src = need
                    else:
                        ok, why = sort_key_total(crate, ss)
                        obs.append(Ob("R13.sanitizer", b.path, "%s sorted before iteration (%s)" % (need, why), ok, site=ss.where,
                                      expected="sort with a total key before rendering", found="%s: %s" % (ss.path.rsplit("::", 1)[-1], why)))
                        if not ok:
                            src = need + " (sort key not total)"
                        elif need.startswith("discovery"):
                            gen_sorted_inner[b.path] = True
            elif re.match(r"^<[A-Z]\w* as std::iter::IntoIterator>::IntoIter$", lp.self_ty or "") or re.match(r"^[A-Z]\w*$", lp.self_ty or ""):
                # the iterator of a type parameter (`fn f<I: IntoIterator<Item = T>>(items: I)`): what order it has is the caller's business, so the
                # worst is assumed here - whatever this loop feeds must not depend on the order
                src = "caller-ordered"
            else:
                obs.append(Ob("R13.loop", b.path, "iterator of unknown order class %s" % lp.self_ty.split("<")[0], False, site=lp.site.where,
                              expected="a classified iterator type", found=lp.self_ty))
                continue
            obs.append(Ob("R13.loop", b.path, "loop over %s [%s]" % (show(it)[:80], src or "ordered"), True, site=lp.site.where,
                          found=lp.self_ty.split("<")[0], nontrivial=src is not None))
            if src is None:
                continue
            normal, extra = lp.exits()
            for (x, t) in extra:
                obs.append(Ob("R13.exit", b.path, "early exit from a %s loop over %s" % (src, show(it)[:60]), False,
                              site="%s:%d" % (b.file, b.blocks[x]["tloc"]["line"]), expected="exhaustion is the only exit of an unordered loop"))
            for (l, how) in carried_state(b, lp):
                obs.append(Ob("R13.taint", b.path, "a %s loop carries `%s` from one element to the next and looks at it (%s)" % (src, b.locals[l]["name"], how), False,
                              site=lp.site.where, expected="what is done for one element of an unordered collection does not depend on the elements visited before it",
                              found="%s : %s, set inside the loop and before it, read at %s" % (b.locals[l]["name"], b.locals[l]["ty"], how),
                              example="two runs over the same file: the hash order of the collection decides which elements see the earlier state"))
            for s in S.call_sites(b):
                if s.bb not in lp.blocks or s.path not in O.ORDERED_SINKS or not s.args:
                    continue
                recv = s.args[0]
                root = O.root_object(recv)
                cb = O.creation_block(b, root)
                if cb is not None and cb in lp.blocks:
                    continue  # object local to one iteration
                if root in S.single_push_lists(b) and s.path.endswith("::push"):
                    obs.append(Ob("R13.sink", b.path, "work list filled in this loop's order (its consuming loop is judged in that order class)", True, site=s.where, found=show(root)[:60]))
                    continue
                if root[0] == "const":
                    continue
                # distinct-key exemption: entry keyed by this loop's own key element
                keyed = False
                if recv[0] == "call" and recv[1].endswith(("::or_insert", "::or_insert_with", "::or_default")) and recv[2]:
                    e = recv[2][0]
                    if e[0] == "call" and e[1].endswith("::entry") and len(e[2]) == 2:
                        k = e[2][1]
                        if lp.order == "hash" and "HashMap" in lp.self_ty or "hash_map" in lp.self_ty:
                            if T.field_of(k) == (("elem", it), 0):
                                keyed = True
                if keyed:
                    obs.append(Ob("R13.sink", b.path, "append under the loop's own distinct key", True, site=s.where, found=show(recv)[:120]))
                    continue
                w = walks.get(b.path)
                if w is not None and root == w.acc and src == "listing-ordered":
                    obs.append(Ob("R13.deferred", b.path, "per-pattern file list filled in listing order (must be sorted by every consumer)", True,
                                  site=s.where, found=s.path.rsplit("::", 1)[-1]))
                    continue
                obs.append(Ob("R13.taint", b.path, "%s loop feeds %s on an object that outlives the loop" % (src, s.path.rsplit("::", 2)[-2] + "::" + s.path.rsplit("::", 1)[-1]),
                              False, site=s.where, expected="sort (or BTree collection) between the unordered source and the ordered sink",
                              found="source %s at %s; sink receiver %s" % (show(it)[:80], lp.site.where, show(root)[:80]),
                              example="two runs over the same directory; or the same files created in a different order"))
    # last-wins writes: `map.insert(k, v)` replaces what an earlier iteration stored under k, so on a map that outlives an unordered loop the survivor
    # is chosen by the iteration order (set inserts and `entry(k).or_insert(..)` + append are not: they keep both)
    for b in sc.values():
        if b.derived:
            continue
        for lp in O.loops_of_body(b):
            if lp.order != "hash":
                continue
            src = "listing-ordered" if "ReadDir" in lp.self_ty else "hash-ordered"
            own_key = "HashMap" in lp.self_ty or "hash_map" in lp.self_ty or "BTreeMap" in lp.self_ty or "btree_map" in lp.self_ty
            for s in S.call_sites(b):
                if s.bb not in lp.blocks or len(s.args) != 3 or not s.path.startswith(MAP_INSERT):
                    continue
                root = O.root_object(s.args[0])
                cb = O.creation_block(b, root)
                if (cb is not None and cb in lp.blocks) or root[0] == "const":
                    continue
                if own_key and T.field_of(s.args[1]) == (("elem", lp.iterable), 0):
                    obs.append(Ob("R13.sink", b.path, "map insert under the loop's own distinct key", True, site=s.where, found=show(s.args[1])[:120]))
                    continue
                obs.append(Ob("R13.taint", b.path, "%s loop overwrites map entries (insert: last one wins) on a map that outlives the loop" % src, False, site=s.where,
                              expected="entry(key).or_insert(..) followed by an append / extend, or a key that is distinct per iteration",
                              found="source %s at %s; key %s; map %s" % (show(lp.iterable)[:60], lp.site.where, show(s.args[1])[:60], show(root)[:60]),
                              example="dir/A.sol and dir/sub/B.sol with findings of the same pattern: which file's findings survive depends on the listing order"))
    # order-sensitive operations (dedup of neighbours, first/last, truncation, positional access) on a discovery- / hash-ordered list
    # before it is sorted make the result depend on the discovery order
    SENSITIVE = ("dedup", "dedup_by", "dedup_by_key", "truncate", "pop", "first", "last", "remove", "swap_remove", "split_off", "drain", "get", "index",
                 "chunks", "windows", "split_first", "split_last", "insert")
    for b in sc.values():
        if b.derived or not is_generator(b):
            continue
        for s in S.call_sites(b):
            if not s.args:
                continue
            nm = s.path.rsplit("::", 1)[-1]
            if nm not in SENSITIVE or not s.path.startswith(("std::vec::Vec::", "core::slice::", "std::slice::", "std::ops::Index")):
                continue
            obj = s.args[0]
            cs = collect_site(b, obj, crate)
            unordered = (cs is not None and cs.fn and O.iter_order(cs.fn["gargs"][0]) == "hash") or rooted_at_param(obj)
            if not unordered:
                continue
            if O.sorted_before(b, obj, s.bb) is not None:
                continue
            obs.append(Ob("R13.taint", b.path, "order-sensitive %s on a list that is still in discovery order" % nm, False, site=s.where,
                          expected="sort before any operation that looks at neighbours or positions", found="%s(%s)" % (nm, show(obj)[:60]),
                          example="two identical (file, lines) entries with another file discovered between them"))
    # what is found in a file must not depend on which files were analysed before it: with state shared between the per-file analyses (a cache, a cursor, a
    # scratch table) the set of findings itself follows the discovery order, and two listings of the same content give two reports
    from rules import depend
    obs.append(depend.inherited(ctx, crate, "R13.verdicts", "analyze_for_* x3", "the findings of a file do not depend on the files discovered before it (C15's obligations on shared state and effects)",
                                "C15", lambda o: o.rule in ("R15.globals", "R15.effects", "R15.fileno"),
                                example="the same tree listed directory-first and file-first"))
    # consumers of the deferred listing order
    if any(o.rule == "R13.deferred" for o in obs):
        for g in gens:
            ok = gen_sorted_inner.get(g.path, False)
            obs.append(Ob("R13.consumer", g.path, "consumer sorts each per-pattern file list before rendering", ok,
                          expected="matches.sort() dominating the loop over the file list"))
        if len(gens) < 3:
            obs.append(Ob("R13.consumer", "report", "three report generators found", False, found=[g.path for g in gens]))
    return obs
