"""C09 — version-gated detectors follow the file's 'pragma solidity' version (DESIGN 5/C09)."""
import re
from runner import Ob
from rules import depend
import sites as S
import terms as T
import core
import evalterm as E
from core import show

META = {
    "level": "other",
    "rule": "per gated detector: the gate formula (guard DNF of its reporting sites restricted to version atoms) evaluated against the lexicographic spec on "
            "the grid of version triples (quick: the partition induced by the constants; thorough: the whole grid 0.0.0..2.12.41); complementarity of pre/post; "
            "the pragma-kind guard; behaviour without a version; non-trivial = grid points on which spec and code were compared (distinct triples)",
    "explanation": "R09.formula: each detector's gate is extracted from MIR as a boolean formula over the version triple returned by "
                   "get_solidity_version_from_source_unit (tuple comparisons are std's lexicographic order; component comparisons are evaluated as written) and compared "
                   "with safe_math_pre: v < (0,8,0); post: v >= (0,8,0); string_errors: v >= (0,8,4); short_revert_string: v < (0,8,4). These are formulas about the code; "
                   "the code is not run. R09.compl: pre and post are complementary on every grid point. R09.pragma: a version is returned only under "
                   "name == \"solidity\" of the pragma directive, for the first such directive. R09.none: without a version every reporting site is unreachable "
                   "(and nothing panics: C04). R09.pattern: the require/last-argument/string-literal pattern and the >= 32 threshold are checked by C05-C08's spec comparison.",
    "assumptions": ["PartialOrd on (i32,i32,i32) is lexicographic (std contract)",
                    "R09.extract interprets the version pattern literal with Python's re on a finite grid of pragma spellings (the regex crate's engine is trusted to agree on this fragment)"],
    "floors": {"R09.walker": 1, "R09.lines": 1, "R09.formula": 4, "R09.compl": 1, "R09.pragma": 5, "R09.extract": 3, "R09.none": 4, "R09.pattern.must": 4, "R09.pattern.mustnot": 4},
}

VERSION_FN = "analyzer::utils::get_solidity_version_from_source_unit"
SPEC = {
    "safe_math_pre_080": lambda v: v < (0, 8, 0),
    "safe_math_post_080": lambda v: v >= (0, 8, 0),
    "string_errors": lambda v: v >= (0, 8, 4),
    "short_revert_string": lambda v: v < (0, 8, 4),
}
DETECTORS = {
    "safe_math_pre_080": ("analyzer::optimizations::safe_math::safe_math_pre_080_optimization", True),
    "safe_math_post_080": ("analyzer::optimizations::safe_math::safe_math_post_080_optimization", False),
    "string_errors": ("analyzer::optimizations::string_errors::string_error_optimization", None),
    "short_revert_string": ("analyzer::optimizations::short_revert_string::short_revert_string_optimization", None),
}


def grid(tier):
    if tier == "thorough":
        return [(a, b, c) for a in range(0, 3) for b in range(0, 13) for c in range(0, 42)]
    pts = set()
    for a in (0, 1, 2):
        for b in (0, 7, 8, 9, 10, 12):
            for c in (0, 3, 4, 5, 10, 40):
                pts.add((a, b, c))
    return sorted(pts)


def gate_sites(crate, body):
    """reporting sites of a gated detector: inserts/extends on its result set"""
    res = body.val_local(0)
    out = []
    for s in S.call_sites(body):
        if s.args and s.args[0] == res and s.path.endswith(("::insert", "::extend")):
            out.append(s)
    if not out and res[0] == "phi":
        # guard clauses: early returns of an empty set, then the real result returned directly: the place where a non-empty result is
        # returned is the reporting site
        class _Ret:
            def __init__(self, bb):
                self.bb = bb
        all_sites = S.call_sites(body)
        for bb, v in S.def_table(body, 0):
            empty = v[0] == "call" and v[1].endswith("::new") and not any(s.args and s.args[0] == v and s.path.endswith(("::insert", "::extend")) for s in all_sites)
            if not empty:
                out.append(_Ret(bb))
    return out


def make_gate(target, sites, vopt, vsome, params):
    def gate(version):
        def interp(t):
            if t == vsome:
                if version is None:
                    raise E.Unknown("no version")
                return version
            if t == vopt:
                return version
            if t[0] == "variant" and t[1] == vopt:
                return "Some" if version is not None else "None"
            if t[0] == "param" and t[1] in params:
                return params[t[1]]
            raise E.Unknown("x")
        res = False
        for s in sites:
            raw = core.block_guard_atoms(target, s.bb) or []
            # atoms that do not mention the version or the flag are pattern conditions: satisfiable, set to true

            def relevant(a):
                return T.contains(a[1], vopt) or any(T.contains(a[1], ("param", p)) for p in params)
            r2 = [[a for a in conj if relevant(a)] for conj in raw]
            res = res or E.ev_dnf(r2, interp)
        return res
    return gate


def run(ctx, crate):
    obs = []
    # occurrences count wherever they are nested: inherited from C01 (the search reaches every syntactic position)
    obs.append(depend.inherited(ctx, crate, "R09.walker", "analyzer::ast::walk_node_for_targets", "the search reaches every nested position (C01's obligations on the walker)",
                                "C01", lambda o: o.rule in ("R01.children", "R01.order", "R01.once", "R01.uncond", "R01.preorder", "R01.loops", "R01.entry"),
                                example="the pattern inside !( .. ) or inside a catch body"))
    # "a line is reported": the line is the detector's location converted by the shared lookup (C02's obligations on the line function and its use)
    obs.append(depend.inherited(ctx, crate, "R09.lines", "analyzer::utils::get_line_number", "a finding's line is the line its construct begins on (C02's obligations on the line lookup)",
                                "C02", lambda o: o.rule in ("R02.canon", "R02.range", "R02.plumb"), example="a multi-byte character in a comment before the construct"))
    G = grid(ctx.tier)
    gates = {}
    for name, (fn, flag) in DETECTORS.items():
        b = crate.bodies.get(fn)
        if b is None:
            obs.append(Ob("R09.formula", fn, "anchor missing", False))
            continue
        target = b
        params = {}
        if flag is not None:
            # thin wrapper around a shared function taking the pre/post flag
            calls = [s for s in S.call_sites(b) if s.local and len(s.args) == 2 and s.args[1][0] == "const" and s.args[1][1] == "bool"]
            if len(calls) != 1 or b.val_local(0) != calls[0].result:
                obs.append(Ob("R09.formula", fn, "wrapper forwards to the shared gate with a constant flag", False, found=[show(c.result)[:60] for c in calls]))
                continue
            if calls[0].args[1][2] != flag:
                obs.append(Ob("R09.formula", fn, "wrapper passes pre_080 = %s" % flag, False, found=calls[0].args[1][2]))
                continue
            target = crate.bodies.get(calls[0].resolved) or crate.bodies.get(calls[0].path)
            params = {2: flag}
            if target is None:
                obs.append(Ob("R09.formula", fn, "shared gate body present", False))
                continue
        sites = gate_sites(crate, target)
        vcalls = [s for s in S.call_sites(target) if s.path == VERSION_FN]
        if not sites or len(vcalls) != 1:
            obs.append(Ob("R09.formula", fn, "reporting sites and one version lookup found", False, found="sites=%d lookups=%d" % (len(sites), len(vcalls))))
            continue
        vopt = vcalls[0].result
        vsome = core.mk_proj(core.mk_proj(vopt, ("dc", "Some")), ("f", 0, "0"))

        gate = make_gate(target, sites, vopt, vsome, params)

        bad = []
        try:
            for v in G:
                if gate(v) != SPEC[name](v):
                    bad.append(v)
        except E.Unknown as e:
            obs.append(Ob("R09.formula", fn, "gate formula evaluable", False, found="opaque sub-term: %s" % e))
            continue
        try:
            none_ok = gate(None) is False
        except E.Unknown:
            none_ok = False  # the version is used without testing that it exists
        gates[name] = gate
        obs.append(Ob("R09.formula", fn, "%s reports iff %s" % (name, {"safe_math_pre_080": "v < 0.8.0", "safe_math_post_080": "v >= 0.8.0",
                      "string_errors": "v >= 0.8.4", "short_revert_string": "v < 0.8.4"}[name]), not bad,
                      expected="lexicographic comparison of (major, minor, patch) on %d version triples" % len(G),
                      found=("disagrees on e.g. %s" % ", ".join("%d.%d.%d" % v for v in bad[:6])) if bad else "agrees on all %d triples" % len(G),
                      example=("pragma solidity %d.%d.%d;" % bad[0]) if bad else None))
        obs.append(Ob("R09.none", fn, "%s: without a version nothing is reported" % name, none_ok,
                      expected="every reporting site unreachable when no pragma solidity exists", example="a file without any pragma"))
    ctx.analysed.setdefault("C09", {})[crate.ctype] = {"grid_points": len(G), "tier": ctx.tier}
    if "safe_math_pre_080" in gates and "safe_math_post_080" in gates:
        both = [v for v in G if gates["safe_math_pre_080"](v) and gates["safe_math_post_080"](v)]
        neither = [v for v in G if not gates["safe_math_pre_080"](v) and not gates["safe_math_post_080"](v)]
        obs.append(Ob("R09.compl", "safe_math", "pre and post are complementary", not both and not neither,
                      found="both on %s, neither on %s" % (both[:3], neither[:3]) if (both or neither) else "complementary on %d triples" % len(G)))
    # ---------------- R09.pattern: the structural pattern of each gated detector against its spec (DESIGN 8.5)
    import summary
    from rules import speccmp
    from rules import detectors as D
    spec = speccmp.load_spec()
    sm = summary.Summ(crate)
    d = D.Dispatch(crate, "optimizations")
    for variant, name in (("SafeMathPre080", "safe_math_pre_080"), ("SafeMathPost080", "safe_math_post_080"), ("StringErrors", "string_errors"),
                          ("ShortRevertString", "short_revert_string")):
        s = d.table.get(variant) if d.ok else None
        if s is None or name not in spec:
            obs.append(Ob("R09.pattern.must", D.ANALYZE["optimizations"], "%s is dispatched and specified" % name, False))
            continue
        body = crate.bodies.get(s.resolved) or crate.bodies.get(s.path)
        obs += speccmp.compare("R09.pattern", crate, sm, body, spec[name])
    # ---------------- R09.pragma
    vb = crate.bodies.get(VERSION_FN)
    if vb is None:
        obs.append(Ob("R09.pragma", VERSION_FN, "anchor missing", False))
        return obs
    tab = S.ret_table(vb)
    somes = [(g, v) for (g, v) in tab if not (v[0] == "agg" and v[2].endswith("Option::None"))]
    ok = bool(somes)
    why = []
    for g, v in somes:
        if g is None or not g:
            ok = False
            continue
        for c in g:
            names = [a for a in c if a.startswith("eq(") and a.endswith(', "solidity")') and ".name" in a and "PragmaDirective.1" in a]
            kind = [a for a in c if a.startswith("is(") and a.endswith("; PragmaDirective)")]
            if len(names) != 1 or len(kind) != 1:
                ok = False
                why.append(" && ".join(c)[-200:])
    obs.append(Ob("R09.pragma", VERSION_FN, "a version is produced only from a directive named solidity", ok,
                  expected="every Some(..) return guarded by PragmaDirective.1.name == \"solidity\"", found=why or "guarded",
                  example="pragma experimental ABIEncoderV2; pragma solidity 0.8.14;"))
    # directives with another name are skipped, not an end of the search: the loop over the directives is left early only under name == "solidity"
    import order as O
    bad_exits = []
    for lp in O.loops_of_body(vb):
        if "PragmaDirective" not in show(lp.iterable):
            continue
        for (x, t_) in lp.exits()[1]:
            g = S.block_guard(vb, t_) or []
            for c in g:
                if not any(a.startswith("eq(") and a.endswith(', "solidity")') and "PragmaDirective.1" in a for a in c):
                    bad_exits.append("line %d" % vb.blocks[x]["tloc"]["line"])
    obs.append(Ob("R09.pragma", VERSION_FN, "other pragmas are skipped: the search ends early only at a directive named solidity", not bad_exits,
                  expected="every break / return inside the loop over the directives is guarded by PragmaDirective.1.name == \"solidity\"",
                  found=sorted(set(bad_exits)) or "solidity only", example="pragma experimental ABIEncoderV2; pragma solidity 0.8.14;"))
    # a directive named solidity yields no version only when one of its three components is missing or does not parse
    nones = [(g, v) for (g, v) in tab if v[0] == "agg" and v[2].endswith("Option::None")]
    comp_calls = [s for s in S.call_sites(vb) if s.path == "std::iter::Iterator::next" and T.calls_in(s.args[0], "get_solidity_major_minor_patch_version")]
    okn = True
    whyn = []
    for g, v in nones:
        for c in (g or []):
            for a in c:
                if a.endswith("; PragmaDirective)") or (', "solidity")' in a and ".name" in a):
                    continue
                if "Iterator::next(" in a and "get_solidity_major_minor_patch_version" in a and (a.startswith(("is(", "!is("))):
                    continue
                if COMPONENT_TEST.match(a):
                    continue  # a variant test of one parsed component (`next()??` with the parse result turned into an Option first)
                okn = False
                whyn.append(a[-160:])
    obs.append(Ob("R09.pragma", VERSION_FN, "a solidity directive is dropped only for a missing or unparsable component", okn and len(comp_calls) == 3,
                  expected="None is returned only under tests on the three parsed components", found=sorted(set(whyn)) or "component tests only",
                  example="pragma solidity 0.0.0;"))
    # the triple is (first, second, third) component, each parsed as i32
    okv = False
    comp_sorted = sorted(comp_calls, key=lambda s_: vb.rpo_idx.get(s_.bb, 0))
    expected = []
    for s_ in comp_sorted:
        r = s_.result
        r = core.mk_proj(core.mk_proj(r, ("dc", "Some")), ("f", 0, "0"))
        r = core.mk_proj(core.mk_proj(r, ("dc", "Ok")), ("f", 0, "0"))
        expected.append(show(r))
    got_triple = None
    for g, v in somes:
        if v[0] == "agg" and v[2].endswith("Option::Some") and v[3] and v[3][0][0] == "agg" and v[3][0][1] == "tuple" and len(v[3][0][3]) == 3:
            got_triple = [show(x) for x in v[3][0][3]]
            # sites differ although the rendered strings coincide: compare the terms' call sites through identity of the rendered unwrapped results
            terms = list(v[3][0][3])
            okv = len(comp_sorted) == 3
            for cterm, s_ in zip(terms, comp_sorted):
                r = s_.result
                r = core.mk_proj(core.mk_proj(r, ("dc", "Some")), ("f", 0, "0"))
                r_ok = core.mk_proj(core.mk_proj(r, ("dc", "Ok")), ("f", 0, "0"))
                r_some = core.mk_proj(core.mk_proj(r, ("dc", "Some")), ("f", 0, "0"))  # (the closure may hand on `parse().ok()`)
                if cterm != r_ok and cterm != r_some:
                    okv = False
    # which advance of the component iterator each member of the triple comes from: the value terms of the three `next()` results coincide (each is "an
    # element of the iterator"), so the order is read off the definitions: member i must flow, through moves and projections only, from the result
    # of the i-th advance (the three advances dominating one another in that order)
    def origin_call(l, pr, depth=0):
        while depth < 40:
            depth += 1
            ds = [d_ for d_ in vb.defs.get(l, []) if d_[2] == []]
            if len(ds) > 1 and pr and isinstance(pr[0], dict) and "dc" in pr[0]:
                # built as one variant or another on different paths (the ControlFlow of a `?`): the projection says which
                ds = [d_ for d_ in ds if d_[3] == "rv" and d_[4]["k"] == "agg" and d_[4].get("variant") == pr[0]["dc"]]
            if len(ds) != 1:
                return None
            (bb_, si_, _pr, kind_, payload_) = ds[0]
            if kind_ == "call":
                return bb_
            if kind_ != "rv":
                return None
            if payload_["k"] == "use" and payload_["o"]["k"] in ("move", "copy"):
                l, pr = payload_["o"]["p"]["l"], list(payload_["o"]["p"]["pr"]) + pr
                continue
            if payload_["k"] == "agg" and payload_.get("ak") in ("tuple", "adt") and pr:
                # a field read back out of a tuple / enum payload that was just built (the match scrutinee `(a, b, c)`, the ControlFlow of a `?`)
                rest = pr
                if payload_.get("ak") == "adt":
                    if not (isinstance(rest[0], dict) and rest[0].get("dc") == payload_.get("variant")):
                        return None
                    rest = rest[1:]
                if rest and isinstance(rest[0], dict) and "f" in rest[0] and rest[0]["f"] < len(payload_["ops"]):
                    op_ = payload_["ops"][rest[0]["f"]]
                    if op_["k"] not in ("move", "copy"):
                        return None
                    l, pr = op_["p"]["l"], list(op_["p"]["pr"]) + rest[1:]
                    continue
                return None
            return None
        return None
    order_ok = False
    tuples = [st_ for bb_ in vb.reach for st_ in vb.blocks[bb_]["stmts"] if st_["k"] == "assign" and st_["rv"]["k"] == "agg" and st_["rv"].get("ak") == "tuple"
              and len(st_["rv"]["ops"]) == 3 and "i32, i32, i32" in (st_["p"].get("ty") or "")]
    if len(tuples) == 1 and len(comp_sorted) == 3:
        srcs = [origin_call(o_["p"]["l"], list(o_["p"]["pr"])) if o_["k"] in ("move", "copy") else None for o_ in tuples[0]["rv"]["ops"]]
        chain = all(vb.dominates(comp_sorted[i_].bb, comp_sorted[i_ + 1].bb) and comp_sorted[i_].bb != comp_sorted[i_ + 1].bb for i_ in range(2))
        order_ok = chain and srcs == [c_.bb for c_ in comp_sorted]
    okv = okv and order_ok
    # the closure handed to map() on the component iterator (wherever it is declared: the helper may have been split)
    cpaths = set()
    for s_ in comp_calls:
        for x in T.subterms(s_.args[0]):
            if x[0] == "agg" and x[1] == "closure":
                cpaths.add(x[2])
    clo = [crate.bodies[p_] for p_ in sorted(cpaths) if p_ in crate.bodies]
    cres = clo[0].val_local(0) if len(clo) == 1 else None
    if cres is not None and cres[0] == "phi" and len(cres[2]) == 2:
        # `parse::<i32>().ok()`: Some(the Ok payload) | None
        ss_ = [m for m in cres[2] if m[0] == "agg" and m[2].endswith("Option::Some") and len(m[3]) == 1]
        nn_ = [m for m in cres[2] if m[0] == "agg" and m[2].endswith("Option::None")]
        if len(ss_) == 1 and len(nn_) == 1 and ss_[0][3][0][0] == "proj" and ss_[0][3][0][2] == ("f", 0, "0") and ss_[0][3][0][1][0] == "proj" and ss_[0][3][0][1][2] == ("dc", "Ok"):
            cres = ss_[0][3][0][1][1]
    okc = cres is not None and T.is_call(cres, "parse::<i32>") and cres[2] and cres[2][0] == ("param", 2)
    obs.append(Ob("R09.pragma", VERSION_FN, "the triple is the three components in order, each parsed as i32, unmodified", bool(okv and okc),
                  expected="Some((c1, c2, c3)) with ci the i-th parsed component", found="%s ; components parsed by %s" % (
                      [x[-50:] for x in (got_triple or [])], show(clo[0].val_local(0))[:60] if clo else None),
                  example="pragma solidity >0.8.3;"))
    # search is over all pragma directives of the file, in order, first match wins (single directive by the quantifier)
    ss = S.call_sites(vb)
    srch = [s for s in ss if s.path.endswith("extract_target_from_node")]
    ok2 = len(srch) == 1 and "PragmaDirective" in show(srch[0].args[0]) and srch[0].args[1][0] == "agg" and srch[0].args[1][3][0] == ("param", 1)
    obs.append(Ob("R09.pragma", VERSION_FN, "all pragma directives of the file are candidates", ok2, found=show(srch[0].result)[:90] if srch else None))
    obs += extract_obligations(crate)
    return obs


COMPONENT_TEST = re.compile(r"^!?is\(Iterator::map\(utils::get_solidity_major_minor_patch_version\([^;]*\), closure\(\)\)\[\*\]\??; (Some|Ok|None|Err)\)$")
EXTRACT_FN = "analyzer::utils::get_solidity_major_minor_patch_version"
REFERENCE_RE = r"\d+\.\d+\.+\d+"


def pragma_texts():
    """version literals as they appear in `pragma solidity ..;` : one version with every operator spelling, ranges, odd spacing"""
    out = []
    vs = ["0.4.24", "0.7.6", "0.8.0", "0.8.3", "0.8.4", "0.8.13", "0.8.19", "0.10.2", "1.0.0", "0.8.40", "10.20.30"]
    for v in vs:
        for op in ("", "^", "~", "=", ">", ">=", "<", "<=", "^ ", ">= ", " "):
            out.append(op + v)
    for a, b_ in (("0.8.0", "0.9.0"), ("0.7.6", "0.8.4"), ("0.8.4", "0.8.20")):
        out += [">=%s <%s" % (a, b_), ">%s <=%s" % (a, b_), ">=%s  <%s" % (a, b_), "^%s || ^%s" % (a, b_)]
    out += ["*", "", "0.8", "^0.8", "0.8.x", "0.8..4", "1.2.3.4.5.6", "v0.8.4", "0.8.4-alpha"]
    return out


def extract_obligations(crate):
    """R09.extract: the version triple is read off the pragma text as the reference does: the last match of a pattern that agrees with the reference
    pattern on every pragma spelling of the grid, "0.0.0" when nothing matches, split at '.'. The pattern is a literal of the program: it is
    interpreted (Python's re, same syntax for this fragment) on a finite grid of texts, the program is not run."""
    import re
    import order as O
    obs = []
    b = crate.bodies.get(EXTRACT_FN)
    if b is None:
        return [Ob("R09.extract", EXTRACT_FN, "anchor missing", False)]
    ss = S.call_sites(b)
    regs = [s for s in ss if s.path == "regex::Regex::new"]
    lit = regs[0].args[0][2] if len(regs) == 1 and regs[0].args and regs[0].args[0][0] == "const" and regs[0].args[0][1] == "str" else None
    agree, why = False, None
    if lit is not None:
        try:
            cand = re.compile(lit)
            ref = re.compile(REFERENCE_RE)
            diff = []
            for t_ in pragma_texts():
                a_ = [m.group(0) for m in cand.finditer(t_)]
                r_ = [m.group(0) for m in ref.finditer(t_)]
                if (a_[-1] if a_ else None) != (r_[-1] if r_ else None):
                    diff.append(t_)
            agree, why = not diff, diff[:5] or "agrees on %d pragma spellings" % len(pragma_texts())
        except re.error as e:
            why = "pattern not interpretable: %s" % e
    obs.append(Ob("R09.extract", EXTRACT_FN, "one version pattern, selecting the same text as the reference pattern on every pragma spelling", bool(agree),
                  expected="last match equal to the last match of %s" % REFERENCE_RE, found=why if lit is not None else "patterns: %d" % len(regs),
                  example="pragma solidity ^0.8.13;  (two-digit patch)"))
    # the text searched is the pragma literal itself
    srch = [s for s in ss if s.path in ("regex::Regex::captures_iter", "regex::Regex::find_iter", "regex::Regex::find", "regex::Regex::captures")]
    ok_src = len(srch) == 1 and len(srch[0].args) == 2 and srch[0].args[1] == ("param", 1) and srch[0].path.endswith("_iter")
    obs.append(Ob("R09.extract", EXTRACT_FN, "every match in the unmodified pragma text is looked at", ok_src,
                  expected="captures_iter / find_iter over the parameter", found=[(core.short_fn(s.path), show(s.args[1])[:40]) for s in srch]))
    # last match wins: the loops over the matches run to exhaustion; default 0.0.0; split at '.'
    early = []
    for lp in O.loops_of_body(b):
        early += [b.blocks[x]["tloc"]["line"] for (x, t) in lp.exits()[1]]
        # "the last match": every advance of a match iterator is the head of a loop (a lone next() / nth() takes the first ones), the loop walks the
        # matches themselves (no rev / skip / take / filter in between), and what it remembers is overwritten by every element unconditionally
        if not lp.blocks:
            early.append("%d (a single step, not a loop)" % b.blocks[lp.site.bb]["tloc"]["line"])
            continue
        it = lp.iterable
        if not (it[0] == "call" and it[1].rsplit("::", 1)[-1] in ("captures_iter", "find_iter", "iter") and it[1].startswith("regex::")):
            early.append("%d (the matches are adapted before the loop: %s)" % (b.blocks[lp.site.bb]["tloc"]["line"], show(it)[:50]))
        g_head = S.block_guard(b, lp.head)
        for l in range(1, len(b.locals)):
            ds = [d for d in b.defs.get(l, []) if d[2] == []]
            inside = [d for d in ds if d[0] in lp.blocks]
            if not inside or len(inside) == len(ds):
                continue
            innermost = all(not (set(b.loops.get(h2, ())) < set(lp.blocks) and d[0] in b.loops.get(h2, ())) for d in inside for h2 in b.loops)
            if not innermost:
                continue
            for d in inside:
                if S.block_guard(b, d[0]) != g_head:
                    early.append("%d (conditional update of what is remembered)" % b.blocks[d[0]]["tloc"]["line"])
    ret = b.val_local(0)
    if ret[0] == "call" and ret[1].rsplit("::", 1)[-1] in ("new", "with_capacity") and ret[1].startswith("std::vec::Vec::"):
        # a list created empty and filled by exactly one `extend(iterator)` outside every loop is that iterator collected
        fills = [s_ for s_ in ss if s_.args and O.root_object(s_.args[0]) == ret and s_.path.rsplit("::", 1)[-1] not in ("len", "iter", "is_empty", "deref", "capacity")]
        if len(fills) == 1 and fills[0].path == "std::iter::Extend::extend" and len(fills[0].args) == 2 and not b.loops_of(fills[0].bb):
            ret = ("call", "std::iter::Iterator::collect", (fills[0].args[1],), None)
    shape = T.is_call(ret, "Iterator::collect") and ret[2] and ret[2][0][0] == "call" and ret[2][0][1].endswith("str>::split") and len(ret[2][0][2]) == 2 and ret[2][0][2][1] in (("const", "str", "."), ("const", "char", "."))
    x = ret[2][0][2][0] if shape else None
    alts = list(x[2]) if x is not None and x[0] == "phi" else ([x] if x is not None else [])
    default = [a for a in alts if a[0] == "const" and a[1] == "str"]
    matched = [a for a in alts if a not in default]
    ok_val = shape and len(default) == 1 and default[0][2] == "0.0.0" and len(matched) == 1 and matched[0][0] == "call" and matched[0][1].endswith("::as_str") and \
        bool(T.calls_in(matched[0], "regex::Regex::new")) and not early
    obs.append(Ob("R09.extract", EXTRACT_FN, "the components are the '.'-separated pieces of the last match (0.0.0 if none)", bool(ok_val),
                  expected="split(last match or \"0.0.0\", \".\"), no early exit from the match loops", found=show(ret)[:160] + (" early exit at %s" % early if early else ""),
                  example="pragma solidity >=0.7.0 <0.9.0;"))
    return obs
