"""Anatomy of the three `analyze_dir` siblings, shared by C03, C13, C15, C16."""
import sites as S
import terms as T
from core import show

SIBLINGS = ("analyzer::optimizations::analyze_dir", "analyzer::vulnerabilities::analyze_dir", "analyzer::qa::analyze_dir")


class Walk:
    def __init__(self, crate, path):
        self.body = crate.bodies.get(path)
        self.path = path
        self.ok = self.body is not None
        if not self.ok:
            return
        self.entry = self.body
        self.style = "return-merge"
        self.pat = ("param", 2)
        self.delegate_ok = True
        b = self.body
        # accumulator style: analyze_dir creates the map and hands `&mut map` to a private recursive walker that fills it
        # (fn walk(dir, patterns, &mut map)); the walker is then the body whose anatomy is examined, with the map = its parameter
        if not [s for s in S.call_sites(b) if s.path == "std::fs::read_dir"]:
            acc0 = b.val_local(0)
            cands = []
            for s in S.call_sites(b):
                g = crate.bodies.get(s.resolved) or crate.bodies.get(s.path)
                if s.local and g is not None and g is not b and any(a == acc0 for a in s.args) and [x for x in S.call_sites(g) if x.path == "std::fs::read_dir"]:
                    cands.append((s, g))
            # thin wrapper: analyze_dir(dir, patterns) = walk(dir, &patterns), the private recursive walker returning the map itself
            if acc0[0] == "call" and acc0[1] in crate.bodies and [x for x in S.call_sites(crate.bodies[acc0[1]]) if x.path == "std::fs::read_dir"]:
                g = crate.bodies[acc0[1]]
                j = [i for i, a in enumerate(acc0[2]) if a == ("param", 2)]
                d = [i for i, a in enumerate(acc0[2]) if a == ("param", 1)]
                calls_g = [x for x in S.call_sites(b) if x.path == g.path or x.resolved == g.path]
                if len(j) == 1 and len(d) == 1 and len(calls_g) == 1 and S.block_guard(b, calls_g[0].bb) == [[]] and len(acc0[2]) == 2:
                    self.body = g
                    self.walker_path = g.path
                    self.style = "return-merge"
                    self.wrapped = True
                    self.pat = ("param", j[0] + 1)
                    b = g
            if len(cands) == 1 and T.is_call(acc0, "new") and "HashMap" in acc0[1]:
                s, g = cands[0]
                k = [i for i, a in enumerate(s.args) if a == acc0]
                j = [i for i, a in enumerate(s.args) if a == ("param", 2)]
                d = [i for i, a in enumerate(s.args) if a == ("param", 1)]
                others = [x for x in S.call_sites(b) if x.bb != s.bb and any(T.contains(a, acc0) for a in x.args)]
                self.delegate_ok = len(k) == 1 and len(j) == 1 and len(d) == 1 and not others and S.block_guard(b, s.bb) == [[]] and not b.loops_of(s.bb)
                if len(k) == 1 and len(j) == 1:
                    self.style = "accumulator"
                    self.delegate = s
                    self.body = g
                    self.path = path  # obligations stay keyed by the public entry point
                    self.walker_path = g.path
                    b = g
                    self.acc_param = ("param", k[0] + 1)
                    self.pat = ("param", j[0] + 1)
        self.sites = S.call_sites(b)
        self.acc = b.val_local(0) if self.style == "return-merge" else self.acc_param
        self.read_dir = [s for s in self.sites if s.path == "std::fs::read_dir"]
        self.reads = [s for s in self.sites if s.path in ("std::fs::read_to_string", "std::fs::read", "std::fs::File::open")]
        me = getattr(self, "walker_path", path)
        self.self_calls = [s for s in self.sites if s.resolved == me or s.path == me]
        self.analyze = [s for s in self.sites if s.local and s.path.rsplit("::", 1)[-1].startswith("analyze_for_")]
        self.acc_sites = [s for s in self.sites if s.args and s.args[0] == self.acc and s.path != "std::collections::HashMap::<K, V>::new"]

    def names(self):
        """aliases for readability of reports"""
        n = {}
        if self.read_dir:
            rd = self.read_dir[0].result
            n[rd] = "read_dir(dir)"
        return n


def relevant_loops(w):
    """the loops of a walk that its result depends on: those that contain the per-file analysis call, the recursive call, a read of a file's content,
    the directory listing, or a site that touches the accumulator. A loop that contains none of these (printing the diagnostics of a file that did
    not parse, say) can be left early without any entry, pattern or nested result being lost"""
    import order as O
    b = w.body
    marks = set(s.bb for s in (w.analyze + w.self_calls + w.reads + w.read_dir))
    for s in w.sites:
        if s.args and (s.args[0] == w.acc or O.root_object(s.args[0]) == w.acc):
            marks.add(s.bb)
    out = []
    for lp in O.loops_of_body(b):
        if "ReadDir" in lp.self_ty or any(m in lp.blocks for m in marks):
            out.append(lp)
    return out


def walks(crate):
    return [Walk(crate, p) for p in SIBLINGS]
