"""Anatomy of the three `analyze_dir` siblings, shared by C03, C13, C15, C16."""
import sites as S
import terms as T
from core import show

SIBLINGS = ("analyzer::optimizations::analyze_dir", "analyzer::vulnerabilities::analyze_dir", "analyzer::qa::analyze_dir")


class Walk:
    def __init__(self, crate, path):
        self.body = crate.bodies.get(path)
        self.path = path
        self.ok = self.body is not None
        if not self.ok:
            return
        b = self.body
        self.sites = S.call_sites(b)
        self.acc = b.val_local(0)
        self.read_dir = [s for s in self.sites if s.path == "std::fs::read_dir"]
        self.reads = [s for s in self.sites if s.path in ("std::fs::read_to_string", "std::fs::read", "std::fs::File::open")]
        self.self_calls = [s for s in self.sites if s.resolved == path or s.path == path]
        self.analyze = [s for s in self.sites if s.local and s.path.rsplit("::", 1)[-1].startswith("analyze_for_")]
        self.acc_sites = [s for s in self.sites if s.args and s.args[0] == self.acc and s.path != "std::collections::HashMap::<K, V>::new"]

    def names(self):
        """aliases for readability of reports"""
        n = {}
        if self.read_dir:
            rd = self.read_dir[0].result
            n[rd] = "read_dir(dir)"
        return n


def walks(crate):
    return [Walk(crate, p) for p in SIBLINGS]
