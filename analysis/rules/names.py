"""Name tables str_to_* (literal -> variant), default lists get_all_*, enums: shared by C11 and C14."""
import re
import sites as S
import terms as T
from core import show

CATS = {
    "optimizations": ("analyzer::optimizations::str_to_optimization", "analyzer::optimizations::get_all_optimizations", "analyzer::optimizations::Optimization"),
    "vulnerabilities": ("analyzer::vulnerabilities::str_to_vulnerability", "analyzer::vulnerabilities::get_all_vulnerabilities", "analyzer::vulnerabilities::Vulnerability"),
    "qa": ("analyzer::qa::str_to_qa", "analyzer::qa::get_all_qa", "analyzer::qa::QualityAssurance"),
}

ATOM = re.compile(r'^(!?)eq\((.*), ("(?:[^"\\]|\\.)*")\)$')


def str_table(crate, cat):
    """-> (table {literal: variant}, scrutinee string, problems[])"""
    path = CATS[cat][0]
    b = crate.bodies.get(path)
    if b is None:
        return None, None, ["missing " + path]
    problems = []
    table = {}
    scrut = set()
    import json
    for g, v in S.ret_table(b):
        if v == ("bottom",):
            continue  # (the "result" of a call that never comes back: the unknown-name arm, which default_arm_diverges looks at)
        if g is None or len(g) != 1:
            problems.append("arm with guard %s" % S.guard_str(g))
            continue
        pos = []
        for a in g[0]:
            m = ATOM.match(a)
            if not m:
                problems.append("unrecognised atom %s" % a)
                continue
            scrut.add(m.group(2))
            if not m.group(1):
                pos.append(json.loads(m.group(3)))
        if len(pos) != 1:
            problems.append("arm selected by %d literals" % len(pos))
            continue
        if not (v[0] == "agg" and v[1] == "adt"):
            problems.append("arm %r returns %s" % (pos[0], show(v)))
            continue
        if pos[0] in table:
            problems.append("literal %r appears twice" % pos[0])
        table[pos[0]] = v[2].rsplit("::", 1)[-1]
    return table, sorted(scrut), problems


def default_arm_diverges(crate, cat):
    """the fall-through of the name match must not return: every return-table entry is selected by a literal and the
    body contains a diverging call (panic) reachable when all comparisons fail"""
    b = crate.bodies.get(CATS[cat][0])
    if b is None:
        return False, "missing"
    div = [s for s in S.call_sites(b) if s.diverges()]
    ok = False
    where = None
    for s in div:
        g = s.guard
        if g and len(g) == 1 and g[0] and all(a.startswith("!eq(") for a in g[0]):
            ok = True
            where = s
    return ok, (where.path if where else None)


def all_list(crate, cat):
    b = crate.bodies.get(CATS[cat][1])
    if b is None:
        return None
    v = b.val_local(0)
    # vec![..] : call into_vec(array(..)) or the array itself
    arrs = [x for x in T.subterms(v) if x[0] == "agg" and x[1] == "array"]
    if not arrs:
        return None
    out = []
    for o in arrs[0][3]:
        if o[0] == "agg" and o[1] == "adt":
            out.append(o[2].rsplit("::", 1)[-1])
        else:
            out.append(show(o))
    return out


def variants(crate, cat):
    a = crate.adts.get(CATS[cat][2])
    if a is None:
        return None
    return [v["name"] for v in a["variants"]]
