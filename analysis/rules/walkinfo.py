"""Facts about the traversal shared by C04 / C05-C08 / C19: wrapper-kind edges of the walker, kinds produced by each
classification table, the possible wrapper kinds of the elements of a search (DESIGN 4.2)."""
import sites as S
import terms as T
import ptree
import core
from core import show

WALKER = "analyzer::ast::walk_node_for_targets"
SEARCH1 = "analyzer::ast::extract_target_from_node"
SEARCHN = "analyzer::ast::extract_targets_from_node"
TABLES = {
    "Statement": "analyzer::ast::statement_as_target",
    "Expression": "analyzer::ast::expression_as_target",
    "SourceUnitPart": "analyzer::ast::source_unit_part_as_target",
    "ContractPart": "analyzer::ast::contract_part_as_target",
}


class WalkInfo:
    def __init__(self, crate):
        self.crate = crate
        self.tree = ptree.Tree(crate)
        self.ok = self.tree.ok and WALKER in crate.bodies
        self.edges = {}      # wrapper -> set(wrapper) (children)
        self.produces = {}   # wrapper -> {variant: target}
        self.catch_all = {}
        if not self.ok:
            return
        w = crate.bodies[WALKER]
        for s in S.call_sites(w):
            if s.path != WALKER or len(s.args) != 2:
                continue
            a = s.args[1]
            if a[0] == "agg" and a[1] == "adt" and len(a[3]) == 1:
                kind = a[2].rsplit("::", 1)[-1]
                t = a[3][0]
                while t[0] in ("proj", "elem"):
                    if t[0] == "proj" and t[2][0] == "dc" and t[1] == ("param", 2):
                        self.edges.setdefault(t[2][1], set()).add(kind)
                    t = t[1]
        for wrapper, fn in TABLES.items():
            b = crate.bodies.get(fn)
            tab = {}
            ca = None
            if b is not None:
                for g, v in S.ret_table(b):
                    names = S.variant_of_guard(g)
                    tname = v[2].rsplit("::", 1)[-1] if v[0] == "agg" else show(v)
                    if names is None:
                        ca = tname
                    else:
                        for n in names:
                            tab[n] = tname
            full = {}
            ntype = self.tree.wrappers.get(wrapper)
            if ntype:
                for v in self.tree.variants(ntype)[0]:
                    full[v["name"]] = tab.get(v["name"], ca)
            self.produces[wrapper] = full
            self.catch_all[wrapper] = ca
        self.produces["SourceUnit"] = {"SourceUnit": "SourceUnit"}

    def below(self, kind):
        """wrapper kinds strictly below a node of wrapper kind `kind`"""
        seen = set()
        st = list(self.edges.get(kind, ()))
        while st:
            k = st.pop()
            if k in seen:
                continue
            seen.add(k)
            st.extend(self.edges.get(k, ()))
        return seen

    def variants_for(self, wrapper, targets):
        return sorted(v for v, t in self.produces.get(wrapper, {}).items() if t in targets)

    # ---------------------------------------------------------------- searches
    def search_of(self, t):
        """if t is the result term of extract_target(s)_from_node return (targets, root term) else None"""
        if t[0] != "call" or t[1] not in (SEARCH1, SEARCHN) or len(t[2]) != 2:
            return None
        ts = t[2][0]
        targets = None
        if t[1] == SEARCH1 and ts[0] == "agg" and ts[1] == "adt":
            targets = {ts[2].rsplit("::", 1)[-1]}
        elif t[1] == SEARCHN:
            arr = [x for x in T.subterms(ts) if x[0] == "agg" and x[1] == "array"]
            if arr and all(o[0] == "agg" and o[1] == "adt" for o in arr[0][3]):
                targets = {o[2].rsplit("::", 1)[-1] for o in arr[0][3]}
        if targets is None:
            return None
        return targets, t[2][1]

    def node_candidates(self, node):
        """possible (wrapper kind, variant) pairs of a Node-valued term; None if unknown"""
        if node[0] == "agg" and node[1] == "adt" and node[2].startswith(ptree.NODE_ENUM + "::"):
            k = node[2].rsplit("::", 1)[-1]
            inner = node[3][0]
            # a payload that is a known variant projection narrows the variant
            return {(k, v) for v in self.produces.get(k, {})}
        if node[0] == "elem":
            so = self.search_of(node[1])
            if so is None:
                return None
            targets, root = so
            rc = self.node_candidates(root)
            if rc is None:
                return None
            out = set()
            for (k, v) in rc:
                if self.produces.get(k, {}).get(v) in targets:
                    out.add((k, v))
            for k in set(kk for (kk, _) in rc):
                for b in self.below(k):
                    for v, t in self.produces.get(b, {}).items():
                        if t in targets:
                            out.add((b, v))
            return out
        if node[0] == "param":
            # a Node parameter of unknown origin: any wrapper kind, any variant
            return {(k, v) for k in self.produces for v in self.produces[k]}
        if node[0] == "phi":
            out = set()
            for m in node[2]:
                c = self.node_candidates(m)
                if c is None:
                    return None
                out |= c
            return out
        return None
