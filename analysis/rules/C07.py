"""C07 — vulnerability detectors report every canonical instance and no non-instance (DESIGN 5/C07, section 8.3)."""
from runner import Ob
from rules import depend
import summary
from rules import detectors as D
from rules import speccmp

DETECTORS = {"UnsafeERC20Operation": "unsafe_erc20_operation", "DivideBeforeMultiply": "divide_before_multiply",
             "FloatingPragma": "floating_pragma", "UnprotectedSelfdestruct": "unprotected_selfdestruct"}

META = {
    "level": "other",
    "rule": "per detector and reported location: must => code and code => envelope by ROBDD over access-path atoms (bound element variables of helper loops "
            "compared modulo renaming; loop cursors as regular access paths); non-trivial = every implication",
    "explanation": "The four vulnerability detectors' summaries (reported location + condition, helpers such as _is_public_or_external / _contains_protection_modifiers / "
                   "_contains_msg_sender_conditions expanded with their own bound variables, the left-spine walks of divide_before_multiply as regular access paths "
                   "base(step|step)*) are compared with DESIGN section 8.3 in specs/detectors.spec. For unprotected_selfdestruct this covers the visibility filter, the "
                   "'only' modifier test, the constructor skip and the protective-call scan including its skip set (selfdestruct/suicide callee, type-conversion callee).",
    "assumptions": ["specs/detectors.spec (DESIGN section 8.3) is the oracle", "str::contains semantics (std)"],
    "floors": {"R07.walker": 1, "R07.lines": 1, "R07.must": 5, "R07.mustnot": 5},
}


def run(ctx, crate):
    obs = []
    # occurrences count wherever they are nested: inherited from C01 (the search reaches every syntactic position)
    obs.append(depend.inherited(ctx, crate, "R07.walker", "analyzer::ast::walk_node_for_targets", "the search reaches every nested position (C01's obligations on the walker)",
                                "C01", lambda o: o.rule in ("R01.children", "R01.order", "R01.once", "R01.uncond", "R01.preorder", "R01.loops", "R01.entry"),
                                example="the pattern inside !( .. ) or inside a catch body"))
    # "a line is reported": the line is the detector's location converted by the shared lookup (C02's obligations on the line function and its use)
    obs.append(depend.inherited(ctx, crate, "R07.lines", "analyzer::utils::get_line_number", "a finding's line is the line its construct begins on (C02's obligations on the line lookup)",
                                "C02", lambda o: o.rule in ("R02.canon", "R02.range", "R02.plumb"), example="a multi-byte character in a comment before the construct"))
    spec = speccmp.load_spec()
    sm = summary.Summ(crate)
    d = D.Dispatch(crate, "vulnerabilities")
    if not d.ok or d.problems:
        return [Ob("R07.must", d.path, "dispatch analysable", False, found=d.problems if d.ok else "missing")]
    for variant, name in sorted(DETECTORS.items()):
        s = d.table.get(variant)
        if s is None or name not in spec:
            obs.append(Ob("R07.must", d.path, "%s is dispatched and specified" % name, False))
            continue
        body = crate.bodies.get(s.resolved) or crate.bodies.get(s.path)
        obs += speccmp.compare("R07", crate, sm, body, spec[name])
    extra = sorted(set(d.table) - set(DETECTORS))
    if extra:
        # (the property is about the four detectors it names: a further detector is outside it)
        obs.append(Ob("R07.scope", d.path, "vulnerability detectors outside this property (not one of the four it names): %s" % extra, True, nontrivial=False))
    return obs
