"""C03 — directory analysis is the exact union of the per-file results (DESIGN 5/C03)."""
from runner import Ob
import sites as S
import terms as T
from core import show
from rules import dirwalk

META = {
    "level": "other",
    "rule": "per analyze_dir sibling: every mutation site of the accumulator map, the recursive call and its merge, the per-file "
            "push, the returned place; non-trivial = obligations comparing a key/value provenance",
    "explanation": "R03.merge: the accumulator (the map that is returned) is mutated only through entry(k).or_insert*(..) followed by "
                   "push/append/extend on the entry; a call that can replace an existing value (HashMap::extend/insert, assignment) is a violation. "
                   "R03.recurse: on the is_dir branch the function calls itself with the sub-path and its own pattern list and every (key, value) of the "
                   "result is merged under its own key. R03.perfile: for every element p of the pattern list the per-file analysis is called with p and its "
                   "result pushed under key p with the current file name, guarded only by non-emptiness. R03.return: the accumulator is returned. "
                   "R03.siblings: the three categories have the same shape.",
    "assumptions": ["what fs::read_dir lists is not modelled", "HashMap/Vec API contracts (entry/or_insert/push/append) are trusted"],
    "floors": {"R03.merge": 6, "R03.recurse": 3, "R03.perfile": 3, "R03.return": 3, "R03.loops": 3, "R03.eligible": 1},
}

READS = ("::len", "::get", "::contains_key", "::iter", "::keys", "::values", "::is_empty", "::clone")
ENTRY = "::entry"
OR_INSERT = ("::or_insert", "::or_insert_with", "::or_default")
APPENDERS = ("::push", "::append", "::extend", "::extend_from_slice")


def entry_of(t, acc):
    """if t is or_insert*(entry(acc, K), ..) return K"""
    if t[0] == "call" and t[1].endswith(OR_INSERT) and t[2]:
        e = t[2][0]
        if e[0] == "call" and e[1].endswith(ENTRY) and len(e[2]) == 2 and e[2][0] == acc:
            return e[2][1]
    return None


def run(ctx, crate):
    obs = []
    # "no eligible file is dropped": which files are eligible is C16's rule; a walker whose test of the file name differs from it drops files
    from rules import depend
    obs.append(depend.inherited(ctx, crate, "R03.eligible", "analyze_dir x3", "exactly the eligible files are analysed (C16's obligations on the file-name test)",
                                "C16", lambda o: o.rule in ("R16.filter", "R16.siblings"), example="a source file named `.sol`, `t.sol` or `A.T.sol` in a nested directory"))
    shapes = {}
    for w in dirwalk.walks(crate):
        if not w.ok:
            obs.append(Ob("R03.merge", w.path, "anchor function missing", False))
            continue
        b = w.body
        acc = w.acc
        if w.style == "accumulator":
            ok_acc = w.delegate_ok and w.entry.val_local(0) == w.delegate.args[int(w.acc_param[1]) - 1]
            obs.append(Ob("R03.return", w.path, "the accumulator map is what is returned", ok_acc,
                          expected="the entry point creates the map, hands `&mut map` once and unconditionally to the recursive walker and returns it",
                          found="walker %s, delegate_ok=%s" % (w.walker_path, w.delegate_ok)))
        else:
            ok_acc = T.is_call(acc, "new") and "HashMap" in acc[1]
            obs.append(Ob("R03.return", w.path, "the accumulator map is what is returned", ok_acc, expected="return value = the HashMap created at entry",
                          found=show(acc)))
        shape = []
        # mutation sites of the accumulator
        for s in w.acc_sites:
            name = s.path
            if name.endswith(READS):
                continue
            if name.endswith(ENTRY):
                shape.append("entry")
                kd = "pattern of the current loop" if s.args[1] == ("elem", w.pat) else ("key of the nested result" if w.self_calls and T.contains(s.args[1], w.self_calls[0].result) else show(s.args[1]))
                obs.append(Ob("R03.merge", w.path, "entry(%s) on the accumulator" % kd, True, site=s.where, found=show(s.args[1])))
                continue
            detail = "accumulator mutated by %s" % name.split("<")[0].rstrip(":") if "<" in name else "accumulator mutated by %s" % name
            detail = "accumulator mutated by " + ("Extend::extend" if name.endswith("Extend::extend") else name.rsplit("::", 2)[-2] + "::" + name.rsplit("::", 1)[-1])
            shape.append("overwrite:" + name.rsplit("::", 1)[-1])
            obs.append(Ob("R03.merge", w.path, detail, False, site=s.where,
                          expected="per-key merge: entry(k).or_insert(..) then push/append",
                          found="%s(%s)" % (name, ", ".join(show(a) for a in s.args[1:])),
                          example="dir/A.sol and dir/sub/B.sol both with a finding of the same pattern; listing order A.sol, sub"))
        # mutations of the lists stored in the accumulator: only push / append / extend may touch an entry
        import order as O2
        for s in w.sites:
            if not s.args or s in w.acc_sites:
                continue
            recv = s.args[0]
            if recv == acc or O2.root_object(recv) != acc:
                continue
            name = s.path.rsplit("::", 1)[-1]
            if s.path.endswith(OR_INSERT) or s.path.endswith(APPENDERS) or s.path.endswith(ENTRY) or name in ("len", "iter", "is_empty", "deref", "deref_mut", "clone"):
                continue
            obs.append(Ob("R03.merge", w.path, "a list stored in the accumulator is changed by %s" % name, False, site=s.where,
                          expected="entries only grow: push / append / extend", found=s.path,
                          example="two files with the same base name in sibling directories"))
        # whole-map assignments to the accumulator local are visible as a phi
        if acc[0] == "phi" and w.style == "return-merge":
            obs.append(Ob("R03.merge", w.path, "accumulator reassigned", False, found=show(acc)))
        # appenders on entries of the accumulator
        appends = []
        for s in w.sites:
            if s.path.endswith(APPENDERS) and s.args:
                k = entry_of(s.args[0], acc)
                if k is not None:
                    appends.append((s, k))
        # R03.recurse
        if len(w.self_calls) != 1:
            obs.append(Ob("R03.recurse", w.path, "exactly one recursive call", False, found=len(w.self_calls)))
        else:
            rc = w.self_calls[0]
            g = S.block_guard(b, rc.bb)
            on_dir = g is not None and all(any(a.startswith("Path::is_dir(") for a in c) for c in g)
            same_patterns = (len(rc.args) == 2 and rc.args[1] == w.pat) if w.style == "return-merge" else \
                (rc.args[int(w.pat[1]) - 1] == w.pat and rc.args[int(w.acc_param[1]) - 1] == w.acc_param)
            sub = rc.args[0] if rc.args else ("unknown", "")
            sub_ok = bool(T.calls_in(sub, "DirEntry::path")) and not T.consts_in(sub, "str")
            obs.append(Ob("R03.recurse", w.path, "recursion on the sub-directory with the same pattern list", on_dir and same_patterns and sub_ok,
                          site=rc.where, expected="analyze_dir(path of the entry, patterns) under is_dir",
                          found="under_is_dir=%s patterns=%s path=%s" % (on_dir, show(rc.args[1]) if len(rc.args) > 1 else None, show(sub))))
            res = rc.result
            merged = False
            if w.style == "accumulator":
                # the nested call writes into the same map: there is no separate result to merge
                gs = S.block_guard(b, rc.bb)
                extra = [a for c in (gs or []) for a in c if not a.startswith("Path::is_dir(")]
                if not extra and len(b.loops_of(rc.bb)) == 1:
                    merged = True
                    shape.append("merge-per-key")
                    shape.append("entry")
                    obs.append(Ob("R03.merge", w.path, "the nested call fills the same accumulator (nothing to merge, nothing to overwrite)", True, site=rc.where,
                                  found=show(rc.args[int(w.acc_param[1]) - 1])))
            for (s, k) in appends:
                # key = element.0 of the recursive result, value = element.1
                if T.contains(k, res) and len(s.args) > 1 and T.contains(s.args[1], res) and k != s.args[1]:
                    ek = k
                    ev = s.args[1]
                    if T.field_of(ek) == (("elem", res), 0) and T.field_of(ev) == (("elem", res), 1):
                        gs = S.block_guard(b, s.bb)
                        extra = [a for c in (gs or []) for a in c if not a.startswith("Path::is_dir(")]
                        if not extra and len(b.loops_of(s.bb)) == 2:
                            merged = True
                            shape.append("merge-per-key")
            edited_rc = S.mutable_borrows_of_result(b, rc) if w.style != "accumulator" else []
            if edited_rc:
                merged = False
            obs.append(Ob("R03.recurse", w.path, "result of the recursion merged per key", merged, site=rc.where,
                          expected="for (k, v) in analyze_dir(sub): entry(k).or_insert(..).append/extend(v), unconditionally",
                          found="merged_per_key=%s" % merged))
        # R03.perfile
        pf = []
        for (s, k) in appends:
            if s.path.endswith("::push") and len(s.args) == 2 and s.args[1][0] == "agg" and s.args[1][1] == "tuple":
                name_t, lines_t = s.args[1][3][0], s.args[1][3][1] if len(s.args[1][3]) == 2 else (None, None)
                pf.append((s, k, name_t, lines_t))
        if len(pf) != 1 or len(w.analyze) != 1:
            obs.append(Ob("R03.perfile", w.path, "one per-file push of (file, lines)", False, found="pushes=%d analysis calls=%d" % (len(pf), len(w.analyze))))
        else:
            (s, k, name_t, lines_t) = pf[0]
            an = w.analyze[0]
            pat = ("elem", w.pat)
            via_list = None
            fk, fl = T.field_of(k), T.field_of(lines_t) if lines_t is not None else None
            if fk and fl and fk[0] == fl[0] and fk[1] == 0 and fl[1] == 1 and fk[0][0] == "elem":
                # the per-pattern results of one file pass through a list of (pattern, lines) pairs first: look through it when the list is created empty,
                # filled by one push inside the loop over the patterns and read only by the loop that records its elements, every one of them
                import order as O2
                L = fk[0][1][1] if fk[0][1][0] == "iter" else fk[0][1]
                fills = [x for x in w.sites if x.args and O2.root_object(x.args[0]) == L and x.path.rsplit("::", 1)[-1] not in ("len", "iter", "into_iter", "is_empty", "deref", "next", "drop")]
                lps = [lp for lp in O2.loops_of_body(b) if (lp.iterable == L or (lp.iterable[0] == "iter" and lp.iterable[1] == L)) and s.bb in lp.blocks]
                if L[0] == "call" and L[1].rsplit("::", 1)[-1] in ("new", "with_capacity") and len(fills) == 1 and fills[0].path.endswith("::push") and len(fills[0].args) == 2 \
                        and fills[0].args[1][0] == "agg" and fills[0].args[1][1] == "tuple" and len(fills[0].args[1][3]) == 2 and len(lps) == 1 and not lps[0].exits()[1] \
                        and S.block_guard(b, s.bb) == S.block_guard(b, lps[0].head) and b.dominates(fills[0].bb, s.bb) is False and b.reaches(fills[0].bb, lps[0].head):
                    via_list = fills[0]
                    k, lines_t = fills[0].args[1][3][0], fills[0].args[1][3][1]
            c1 = k == pat
            c2 = lines_t == an.result and len(an.args) == 3 and an.args[2] == pat
            c3 = bool(T.calls_in(name_t, "Path::file_name")) and w.reads and T.calls_in(name_t, "Path::file_name")[0][2][0] == w.reads[0].args[0]
            c4 = w.reads and T.contains(an.args[0], w.reads[0].result)
            gs = S.block_guard(b, (via_list or s).bb)
            ga = S.block_guard(b, an.bb)
            extra = []
            if gs and ga and len(gs) == 1 and len(ga) == 1:
                extra = sorted(set(gs[0]) - set(ga[0]))
            c5 = extra == ["gt(len(%s), 0)" % show(an.result)] or extra == []
            wl = S.work_list_of_block(b, s.bb)  # (the recording may run over a queue of the per-pattern results: it then stands in the loop that filled the queue)
            eff_bb = wl[0] if len(wl) == 1 and via_list is None else (via_list or s).bb
            loops_ok = len(b.loops_of(an.bb)) == 2 and b.loops_of(eff_bb) == b.loops_of(an.bb) and ((via_list is None and not wl) or len(b.loops_of(s.bb)) == 2)
            edited = S.mutable_borrows_of_result(b, an)
            obs.append(Ob("R03.perfile", w.path, "the per-file result is recorded as the analysis returned it (never borrowed mutably on the way)", not edited, site=an.where,
                          expected="no `&mut` of the result between the analysis call and the push", found=("mutable borrow at line(s) %s" % edited) if edited else "unmodified",
                          example="a post-processing step that removes lines from the result depending on what earlier patterns found"))
            obs.append(Ob("R03.perfile", w.path, "per-file result pushed under its own pattern with the file's name",
                          bool(c1 and c2 and c3 and c4 and c5 and loops_ok), site=s.where,
                          expected="for p in patterns: lines = analyze(content(file), _, p); if non-empty: entry(p).or_insert([]).push((name(file), lines))",
                          found="key=%s lines_from_same_pattern=%s name_of_same_file=%s content_of_same_file=%s extra_guards=%s loops_ok=%s" % (
                              show(k), c2, bool(c3), bool(c4), extra, loops_ok)))
            shape.append("perfile")
        import order as O
        early = []
        for lp in dirwalk.relevant_loops(w):
            normal, extra = lp.exits()
            early += [b.blocks[x]["tloc"]["line"] for (x, t) in extra]
        obs.append(Ob("R03.loops", w.path, "every directory entry, pattern and nested result is processed (loops run to exhaustion)", not early,
                      expected="no break / early return inside analyze_dir's loops", found=("early exit at line(s) %s" % sorted(set(early))) if early else "exhaustion only"))
        shapes[w.path] = sorted(shape)
    if len(shapes) == 3:
        vals = list(shapes.values())
        obs.append(Ob("R03.siblings", "analyze_dir x3", "identical merge shape in the three categories", all(v == vals[0] for v in vals),
                      found=vals))
    return obs
