"""Obligations a property inherits from another property's rules (the statement of the dependent property quantifies over something the other rule set
establishes): the other module's obligations are evaluated on the same facts and folded into one obligation of the dependent check, naming what failed."""
import importlib
from runner import Ob

_cache = {}
_running = set()


def inherited(ctx, crate, rule, fn, what, module, keep, example=None):
    """one obligation `rule` that holds iff all obligations of rules.<module> selected by keep(ob) hold"""
    key = (id(crate), module)
    if key in _running:
        # two properties that lean on each other (C03's "no eligible file is dropped" on C16's filter, C16's "at every depth" on C03's recursion): while
        # the other side is being evaluated for this one, its own obligations are what this run is about to report itself
        return Ob(rule, fn, what, True, expected="(mutual dependency: decided by %s's own obligations in this run)" % module, found="deferred", nontrivial=False)
    if key not in _cache:
        _running.add(key)
        try:
            _cache[key] = importlib.import_module("rules." + module).run(ctx, crate)
        except Exception as e:  # fail closed
            _cache[key] = [Ob(module + ".engine", module, "engine failure: %s" % e, False)]
        finally:
            _running.discard(key)
    sel = [o for o in _cache[key] if keep(o)]
    bad = [o for o in sel if not o.ok]
    return Ob(rule, fn, what, bool(sel) and not bad, expected="%d inherited obligation(s) of %s hold" % (len(sel), module),
              found=["%s %s: %s" % (o.rule, o.fn.rsplit("::", 1)[-1], o.detail[:120]) for o in bad][:4] or "all hold", example=example)
