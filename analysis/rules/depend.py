"""Obligations a property inherits from another property's rules (the statement of the dependent property quantifies over something the other rule set
establishes): the other module's obligations are evaluated on the same facts and folded into one obligation of the dependent check, naming what failed."""
import importlib
from runner import Ob

_cache = {}


def inherited(ctx, crate, rule, fn, what, module, keep, example=None):
    """one obligation `rule` that holds iff all obligations of rules.<module> selected by keep(ob) hold"""
    key = (id(crate), module)
    if key not in _cache:
        try:
            _cache[key] = importlib.import_module("rules." + module).run(ctx, crate)
        except Exception as e:  # fail closed
            _cache[key] = [Ob(module + ".engine", module, "engine failure: %s" % e, False)]
    sel = [o for o in _cache[key] if keep(o)]
    bad = [o for o in sel if not o.ok]
    return Ob(rule, fn, what, bool(sel) and not bad, expected="%d inherited obligation(s) of %s hold" % (len(sel), module),
              found=["%s %s: %s" % (o.rule, o.fn.rsplit("::", 1)[-1], o.detail[:120]) for o in bad][:4] or "all hold", example=example)
