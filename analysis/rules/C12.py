"""C12 — report totals and headings agree with the findings shown (DESIGN 5/C12)."""
from runner import Ob
import sites as S
import terms as T
import order as O
from core import show
import core
from rules import reportgen as R

META = {
    "level": "other",
    "rule": "per generator: the counter's definitions, the position of its increment relative to the entry append, the overview argument; "
            "per category block of generate_report: its guard; per vulnerability: its severity and buffer; per severity buffer: the literal "
            "it is compared with; non-trivial = all of these (each compares two independently written facts of the code)",
    "explanation": "R12.count: the running total is initialised with 0, its only other definition is +1 located in the innermost (per line) loop under exactly "
                   "the guards of the entry append, and the overview is called with it after the loops. R12.category: each category block of generate_report is "
                   "guarded exactly by len(map) > 0 of the map it renders. R12.severity: the variant -> severity table equals {UnprotectedSelfdestruct: High, "
                   "DivideBeforeMultiply: Medium, UnsafeERC20Operation: Low, FloatingPragma: Low} and each finding's block is appended to the buffer whose heading "
                   "names that severity. R12.heading: each severity buffer is emitted under the guard `buffer != L` where L is exactly the literal the buffer was "
                   "initialised with (contradiction rule: the code states twice what 'only the heading' means).",
    "assumptions": ["keys of the findings map exist only with non-empty values (C03 R03.perfile)"],
    "floors": {"R12.count": 4, "R12.category": 3, "R12.severity": 7, "R12.heading": 3, "R12.written": 1},
}

SEVERITY = {"UnprotectedSelfdestruct": "High", "DivideBeforeMultiply": "Medium", "UnsafeERC20Operation": "Low", "FloatingPragma": "Low"}


def run(ctx, crate):
    obs = []
    # totals and headings are compared with what the report file contains: the file is what this run built and nothing else (one write that replaces the
    # file: C18's obligations on the report write) — a tail left over from a longer, older report would be counted and headed too
    from rules import depend
    obs.append(depend.inherited(ctx, crate, "R12.written", "report::generation::generate_report", "the report file holds exactly the text built by this run "
                                "(C18's obligations on the single, replacing write)", "C18", lambda o: o.rule in ("R18.write", "R18.inventory") and not o.ok or o.rule == "R18.write",
                                example="a second run with fewer findings from the same working directory"))
    # ---------------- R12.count
    for cat in ("optimizations", "vulnerabilities"):
        g = R.Gen(crate, cat)
        if not g.ok or g.problems or not g.overview:
            obs.append(Ob("R12.count", R.GENERATORS[cat], "generator analysable", False, found=getattr(g, "problems", "missing")))
            continue
        b = g.body
        ov = g.overview[0]
        cnt = ov.args[0] if ov.args else None
        ok_shape = False
        inc_bb = None
        nested = None  # (reset block of the per-section counter, block where it is added to the total)

        def counter_defs(c):
            """(zero def blocks, increment def blocks) of a counter local"""
            z, i_ = [], []
            for (bb, si, pr, kind, payload) in b.defs.get(c[1][1], []):
                if kind == "rv" and payload["k"] == "use" and payload["o"]["k"] == "const":
                    z.append(bb)
                elif kind == "rv":
                    i_.append(bb)
            return z, i_

        def leaf(c):
            return c[0] == "phi" and len(c[2]) == 2 and ("const", "int", 0) in c[2] and ("bin", "Add", ("rec", c[1]), ("const", "int", 1)) in c[2]

        if cnt is not None and leaf(cnt):
            ok_shape = True
            inc_bb = (counter_defs(cnt)[1] or [None])[-1]
        elif cnt is not None and cnt[0] == "phi" and len(cnt[2]) == 2 and ("const", "int", 0) in cnt[2]:
            # total += (entries of this section), the per-section count being itself 0 then +1 per entry
            adds = [v for v in cnt[2] if v[0] == "bin" and v[1] == "Add" and v[2] == ("rec", cnt[1]) and leaf(v[3])]
            if len(adds) == 1:
                sub = adds[0][3]
                z, i_ = counter_defs(sub)
                tz, ti = counter_defs(cnt)
                if len(z) == 1 and len(i_) == 1 and len(ti) == 1:
                    outer_blocks = b.loops.get(g.outer.head, set()) if g.outer.head is not None else set()
                    reset_ok = z[0] in outer_blocks and z[0] not in g.lines.blocks and b.dominates(z[0], g.lines.head)
                    add_ok = ti[0] in outer_blocks and ti[0] not in g.lines.blocks and b.reaches(g.lines.head, ti[0]) and b.dominates(z[0], ti[0]) \
                        and S.block_guard(b, ti[0]) == S.block_guard(b, z[0]) and len(b.loops_of(ti[0])) == len(b.loops_of(z[0]))
                    ok_shape = bool(reset_ok and add_ok)
                    inc_bb = i_[0]
        once_per_file = False
        if not ok_shape and cnt is not None and cnt[0] == "phi" and len(cnt[2]) == 2 and ("const", "int", 0) in cnt[2]:
            # total += lines.len(), once per file: as many as the per-line loop appends for that file
            adds = [v for v in cnt[2] if v[0] == "bin" and v[1] == "Add" and v[2] == ("rec", cnt[1]) and v[3][0] == "len"]
            if len(adds) == 1:
                def bare(t):
                    while True:
                        if t[0] in ("iter", "enumerate"):
                            t = t[1]
                        elif t[0] == "call" and t[1].rsplit("::", 1)[-1] in ("iter", "into_iter", "deref", "as_ref", "borrow") and len(t[2]) == 1:
                            t = t[2][0]
                        elif t[0] == "obj":
                            t = t[2]
                        else:
                            return t
                tz, ti = counter_defs(cnt)
                pre = [x for x in b.reach if x not in g.lines.blocks and any(t == g.lines.head for (t, _) in b.succ[x])]
                if bare(adds[0][3][1]) == bare(g.lines.iterable) and len(ti) == 1 and len(pre) == 1:
                    ib = ti[0]
                    once_per_file = ib in g.files.blocks and ib not in g.lines.blocks and b.loops_of(ib) == b.loops_of(pre[0]) \
                        and S.block_guard(b, ib) == S.block_guard(b, pre[0])
                    ok_shape = once_per_file
        obs.append(Ob("R12.count", g.path, "total = 0, then +1 only", ok_shape, expected="counter defined by 0 and by counter + 1 (or + a per-section count that is itself 0 then + 1 per entry, reset for every section and added once after its lines)",
                      found=show(cnt) if cnt is not None else None))
        inner = [s for s in g.pushes if g.in_loop(s, g.lines)]
        same = False
        if inc_bb is not None and inner:
            gi = S.block_guard(b, inc_bb)
            ge = inner[0].guard
            same = inc_bb in g.lines.blocks and gi == ge and b.loops_of(inc_bb) == b.loops_of(inner[0].bb)
        if once_per_file and inner:
            # the per-line loop appends one entry per line, unconditionally and to exhaustion (R11.entries' loop obligations): lines.len() entries per file
            same = S.block_guard(b, inner[0].bb) == S.block_guard(b, g.lines.site.term["t"]) and not g.lines.exits()[1]
        obs.append(Ob("R12.count", g.path, "one increment per appended entry", same,
                      expected="the increment sits in the per-line loop under the same guards as the entry append",
                      found="increment in bb%s, entry append in bb%s" % (inc_bb, inner[0].bb if inner else None)))
        after = not b.loops_of(ov.bb) and all(b.dominates(g.outer.site.bb, ov.bb) for _ in [0])
        obs.append(Ob("R12.count", g.path, "overview receives the final total", after, site=ov.where,
                      expected="overview(total) after the loop over the findings"))
        # the overview text is placed in the returned report
        ret = b.val_local(0)
        obs.append(Ob("R12.count", g.path, "overview heads the returned text", ret == ov.result, found=show(ret)[:100]))
    # ---------------- R12.category
    gr = crate.bodies.get("report::generation::generate_report")
    if gr is None:
        obs.append(Ob("R12.category", "report::generation::generate_report", "anchor function missing", False))
    else:
        for s in S.call_sites(gr):
            for cat, gen in R.GENERATORS.items():
                if s.path == gen:
                    arg = s.args[0]
                    want = [["gt(len(%s), 0)" % show(arg)]]
                    obs.append(Ob("R12.category", gr.path, "%s part present iff that category has findings" % cat,
                                  s.guard == want and arg[0] == "param", site=s.where, expected=S.guard_str(want), found=S.guard_str(s.guard)))
    # ---------------- R12.severity
    tab, err = R.section_table(crate, "vulnerabilities")
    if tab is None:
        obs.append(Ob("R12.severity", R.SECTION_FNS["vulnerabilities"], "severity table analysable", False, found=err))
    else:
        for v, want in SEVERITY.items():
            t = tab.get(v)
            sev = None
            if t is not None and t[0] == "agg" and t[1] == "tuple" and len(t[3]) == 2 and t[3][1][0] == "agg":
                sev = t[3][1][2].rsplit("::", 1)[-1]
            obs.append(Ob("R12.severity", R.SECTION_FNS["vulnerabilities"], "%s is %s" % (v, want), sev == want, expected=want, found=sev))
        extra = sorted(set(tab) - set(SEVERITY))
        if extra:
            # the property fixes the severity of the four patterns it names; a further pattern has the severity its table row says, and the buffer rule below
            # (appended under `severity is S` to the buffer headed S) holds for it as for the others
            obs.append(Ob("R12.severity", R.SECTION_FNS["vulnerabilities"], "vulnerability patterns outside the four the property names: %s" % extra, True, nontrivial=False))
    g = R.Gen(crate, "vulnerabilities")
    if g.ok and not g.problems:
        b = g.body
        outs = [s for s in g.pushes if g.in_loop(s, g.outer) and not g.in_loop(s, g.files)]
        # a finding's block is the section text, a line feed and the list: appended at once, or piece by piece to the same buffer under the same condition
        groups = {}
        for s in sorted(outs, key=g.order_key):
            groups.setdefault((s.args[0], repr(s.guard)), []).append(s)
        outs = [ms[0] for ms in groups.values() if sum(len(R.flatten(m.args[1])) for m in ms) == 3]

        def sevs_at(bb):
            out = set()
            for c in (core.block_guard_atoms(b, bb) or []):
                for a in c:
                    if a[0] == "isin" and T.calls_in(a[1], R.SECTION_FNS["vulnerabilities"].rsplit("::", 1)[-1]):
                        out |= set(a[2])
            return out
        sev_bufs = {}
        for s in outs:
            gs = s.guard or []
            recv = s.args[0]
            if recv[0] == "phi" and isinstance(recv[1], tuple) and len(recv[1]) == 2 and recv[1][0] == b.path:
                # the buffer is chosen first (`let buf = match severity { High => &mut high, .. }`): one choice per severity
                choices = [(sevs_at(bb), v) for (bb, v) in S.def_table(b, recv[1][1])]
            else:
                choices = [(sevs_at(s.bb), recv)]
            for sevs, bufv in choices:
                head = R.lit(bufv)
                for sv in sevs:
                    sev_bufs[sv] = bufv
                ok = len(sevs) == 1 and head is not None and list(sevs)[0].lower() in head.lower() and head.startswith("## ")
                obs.append(Ob("R12.severity", g.path, "%s findings go to the buffer headed %r" % ("/".join(sorted(sevs)) or "?", head), ok, site=s.where,
                              expected="append under `severity is S` to the buffer whose heading names S", found="guard %s" % S.guard_str(gs)[-120:]))
        if set(sev_bufs) != {"High", "Medium", "Low"}:
            obs.append(Ob("R12.severity", g.path, "three severity buffers", False, found=sorted(sev_bufs)))
        # ---------------- R12.heading
        final = [s for s in g.pushes if not b.loops_of(s.bb)]
        emitted = set()
        for s in final:
            buf = s.args[1]
            if buf not in sev_bufs.values():
                continue
            init = R.lit(buf)
            gs = s.guard or []
            okg = False
            raw = core.block_guard_atoms(b, s.bb) or []
            raw = [[a for a in c if S.norm_atom(a)[0] != "const"] for c in raw]
            if len(raw) == 1 and len(raw[0]) == 1:
                a = raw[0][0]
                t, pol = a[1], a[0] == "true"
                while t[0] == "un" and t[1] == "Not":
                    t, pol = t[2], not pol
                if t[0] == "bin" and t[1] in ("Eq", "Ne") and a[0] in ("true", "false"):
                    if t[1] == "Ne":
                        pol = not pol
                    x, y = t[2], t[3]
                    if y == buf:
                        x, y = y, x
                    okg = (not pol) and x == buf and y != buf and R.lit(y) == init
            emitted.add(buf)
            obs.append(Ob("R12.heading", g.path, "heading %r printed iff its buffer grew" % (init or "").strip(), okg, site=s.where,
                          expected="emitted under: buffer != %r (its own initial literal)" % init, found=S.guard_str(gs),
                          example="a run with no finding of that severity but a finding of another one"))
        if len(emitted) != 3:
            obs.append(Ob("R12.heading", g.path, "each severity buffer emitted once at the end", False, found=len(emitted)))
    else:
        obs.append(Ob("R12.severity", R.GENERATORS["vulnerabilities"], "generator analysable", False))
    return obs
