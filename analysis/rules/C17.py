"""C17 — findings are invariant under re-layout and commenting of the source (DESIGN 5/C17)."""
from runner import Ob
import core
import sites as S
import terms as T
from core import show
from rules import detectors as D

META = {
    "level": "other",
    "rule": "one obligation per use of the raw text in analyze_for_*, per detector signature, per Loc-consuming call in detector code, per use of the "
            "parser's comment list; non-trivial = obligations about a concrete use site or signature",
    "explanation": "Text confinement: R17.text (the raw text parameter of analyze_for_* reaches only solang_parser::parse and get_line_number; every dispatched "
                   "detector has the signature fn(SourceUnit) -> HashSet<Loc>, so detector code cannot see layout or comments — a type-level fact), R17.opaque (in detector "
                   "code values of type Loc are only moved, copied, hashed or compared for equality: no start/end/range accessors, no projection into Loc::File, no "
                   "ordering), R17.comments (only component 0 of the parser's result — the tree — is used; the comment list is dropped). With C02 (lines follow the "
                   "token's offset) the flagged constructs and their lines move exactly with the tokens.",
    "assumptions": ["the parser yields the same tree, up to locations, for token-identical re-layouts (trusted)",
                    "string literals are single tokens whose content the detectors compare only as token content (e.g. revert string length)"],
    "floors": {"R17.text": 6, "R17.signature": 30, "R17.opaque": 3, "R17.comments": 3, "R17.lines": 1, "R17.asread": 6},
}

LOC_ACCESSORS = ("Loc::start", "Loc::end", "Loc::begin_range", "Loc::end_range", "Loc::range", "Loc::use_start_from", "Loc::use_end_from", "Loc::file_no", "Loc::try_file_no")
ORDERING = ("std::cmp::PartialOrd::lt", "std::cmp::PartialOrd::le", "std::cmp::PartialOrd::gt", "std::cmp::PartialOrd::ge", "std::cmp::PartialOrd::partial_cmp",
            "std::cmp::Ord::cmp", "std::cmp::Ord::max", "std::cmp::Ord::min")


def _looks_at(t, read_call, apaths):
    """does the term mention the text that was read - other than inside the result of the analysis, and other than through the error of a failed read?"""
    if not isinstance(t, tuple) or not t:
        return False
    if t == read_call:
        return True
    if t[0] == "proj" and len(t) == 3 and t[1] == read_call and t[2] == ("dc", "Err"):
        return False
    if t[0] == "call" and (t[1] in apaths or t[1] in (D.PARSE, D.LINE_FN)):
        return False  # the parser sees tokens, not layout (trusted); a line looked up for a message is C02's business
    return any(_looks_at(c, read_call, apaths) for c in t if isinstance(c, tuple))


def run(ctx, crate):
    obs = []
    disp = D.all_dispatch(crate)
    table_forms = []
    for d in disp.values():
        if not d.ok or d.problems:
            obs.append(Ob("R17.text", d.path, "dispatch analysable", False, found=d.problems if d.ok else "missing"))
            continue
        b = d.body
        text = ("param", 1)
        uses = []
        # the line lookup through a table of line-feed positions (C02's table form): when that form is recognised and all its obligations hold, the text's bytes are
        # looked at by the loop that records the positions of the 0x0A bytes and by nothing else
        from rules import C02 as _c02t
        via_ = _c02t.lookup_via(crate, d)
        tf = _c02t.table_form(crate, d, via_) if (via_ is not None or not any(s.path == D.LINE_FN for s in d.sites)) else None
        table_ok = tf is not None and all(o.ok for o in tf)
        if tf is not None:
            table_forms.append(table_ok)
            obs.append(Ob("R17.lines", d.path, "the line of a finding is a function of the token's byte offset and the line feeds before it only", table_ok,
                          expected="1 + number of recorded LF positions before the byte offset", found="table form: %s" % ("recognised" if table_ok else [o.detail for o in tf if not o.ok]),
                          example="a comment made of multi-byte characters above a flagged construct"))
        for s in d.sites:
            if table_ok and s.args and s.path.endswith("str>::bytes") and s.args[0] == text:
                obs.append(Ob("R17.text", d.path, "raw text used by bytes (argument 0)", True, site=s.where,
                              expected="the text reaches only the parser and the line lookup, unmodified", found="the loop that records the positions of the line feeds (C02's table form)"))
                continue
            if table_ok and s.args and any(x[0] == "call" and x[1].endswith("str>::bytes") and x[2] == (text,) for a in s.args for x in T.subterms(a)) \
                    and s.path.rsplit("::", 1)[-1] in ("enumerate", "next", "push", "into_iter"):
                continue
            for i, a in enumerate(s.args):
                if T.contains_outside(a, text, (D.PARSE, D.LINE_FN)) or (s.path in (D.PARSE, D.LINE_FN) and T.contains_outside(a, text, (D.PARSE, D.LINE_FN))):
                    uses.append((s, i))
        for (s, i) in uses:
            ok = (s.path == D.PARSE and i == 0 and s.args[0] == text) or (s.path == D.LINE_FN and i == 1 and s.args[1] == text) or \
                (s.path in ("std::ops::Deref::deref", "std::convert::AsRef::as_ref") and s.args[0] == text)
            obs.append(Ob("R17.text", d.path, "raw text used by %s (argument %d)" % (s.path.rsplit("::", 1)[-1], i), ok, site=s.where,
                          expected="the text reaches only the parser and the line lookup, unmodified", found=show(s.args[i])[:80]))
        if not any(s.path == D.PARSE for (s, _) in uses):
            obs.append(Ob("R17.text", d.path, "the parser receives the text parameter itself", False))
        # R17.comments
        res = d.parse.result
        comp = set()
        for s in d.sites:
            for a in s.args:
                for x in T.subterms(a):
                    if x[0] == "proj" and x[2][0] == "f" and T.strip_unwrap(x[1]) != x[1] and T.strip_unwrap(x[1]) == res:
                        comp.add(x[2][1])
                    elif x[0] == "proj" and x[2][0] == "f" and x[1][0] == "proj" and x[1][2][0] == "f" and x[1][2][1] == 0 and \
                            x[1][1][0] == "proj" and x[1][1][2] == ("dc", "Ok") and x[1][1][1] == res:
                        comp.add(x[2][1])
        obs.append(Ob("R17.comments", d.path, "only the tree component of the parser's result is used", comp == {0},
                      expected="{0} (the comment list is dropped)", found=sorted(comp)))
        # signatures
        for v, s in sorted(d.table.items()):
            tb = crate.bodies.get(s.resolved) or crate.bodies.get(s.path)
            ok = tb is not None and tb.arg_count == 1 and tb.local_ty(1) == "solang_parser::pt::SourceUnit" and \
                tb.local_ty(0).startswith("std::collections::HashSet<solang_parser::pt::Loc")
            obs.append(Ob("R17.signature", s.path, "detector for %s sees only the parse tree" % v, ok,
                          expected="fn(SourceUnit) -> HashSet<Loc>", found="(%s) -> %s" % (", ".join(tb.local_ty(i) for i in range(1, tb.arg_count + 1)), tb.local_ty(0)) if tb else None))
    # R17.lines: the reported lines move exactly with the tokens: the line lookup counts line-feed bytes before the token's byte offset
    from rules import C02 as _c02
    lb = crate.bodies.get(D.LINE_FN)
    if table_forms and len(table_forms) == len(disp):
        pass  # every lookup goes through a table (judged per entry point above)
    elif lb is None:
        obs.append(Ob("R17.lines", D.LINE_FN, "anchor missing", False))
    else:
        canon, why = _c02.canonical_count(crate, lb)
        obs.append(Ob("R17.lines", D.LINE_FN, "the line of a finding is a function of the token's byte offset and the line feeds before it only", canon,
                      expected="1 + number of LF bytes before the byte offset (so white space, comments and multi-byte characters before a token shift its line exactly)",
                      found=why, example="a comment made of multi-byte characters above a flagged construct"))
    # R17.asread: the text that is parsed and in which lines are counted is the file's content as it was read: a walker that hands on a trimmed /
    # rewritten copy reports lines of that copy, not of the file
    from rules import dirwalk as _dw
    for w in _dw.walks(crate):
        if not w.ok:
            continue
        for a_site in w.analyze:
            txt = a_site.args[0] if a_site.args else None
            raw = T.strip_unwrap(txt) if txt is not None else None
            ok = raw is not None and T.is_call(raw, "fs::read_to_string") and len(w.reads) == 1 and raw == T.strip_unwrap(w.reads[0].result)
            obs.append(Ob("R17.asread", w.path, "the text analysed is the file's content as read (no trimming / rewriting on the way)", bool(ok), site=a_site.where,
                          expected="analyze_for_*(read_to_string(path)?, ..)", found=show(txt)[:120] if txt is not None else None,
                          example="a file that starts with blank lines"))
        # ... and nothing else in the walk looks at it: a decision taken on the raw text (a size or bracket-count guard, a keyword pre-check) follows comments
        # and layout, not tokens. The one exemption is the test for a file that holds nothing but white space (there is no token in it to report)
        if len(w.reads) == 1:
            content = T.strip_unwrap(w.reads[0].result)
            trims = ("trim", "trim_start", "trim_end")
            apaths = tuple(sorted(set(a.path for a in w.analyze)))
            lookers = []
            for x in w.sites:
                if x is w.reads[0] or x in w.analyze or not x.args:
                    continue
                if not any(_looks_at(a, content, apaths) for a in x.args):
                    continue
                nm = x.path.rsplit("::", 1)[-1]
                a0 = T.strip_unwrap(x.args[0])
                while a0[0] == "call" and a0[1].rsplit("::", 1)[-1] in ("deref", "as_str", "as_ref", "borrow") and len(a0[2]) == 1:
                    a0 = T.strip_unwrap(a0[2][0])
                if nm in ("unwrap", "expect", "deref", "as_str", "as_ref", "borrow", "drop", "drop_in_place") and a0 == content:
                    continue
                if nm in trims and a0 == content and len(x.args) == 1:
                    continue
                if (x.path == D.PARSE and a0 == content) or (x.path == D.LINE_FN and len(x.args) == 2 and T.strip_unwrap(x.args[1]) == content):
                    continue
                if nm == "is_empty" and (a0 == content or (a0[0] == "call" and a0[1].rsplit("::", 1)[-1] in trims and len(a0[2]) == 1 and T.strip_unwrap(a0[2][0]) == content)):
                    continue
                lookers.append("%s at line %d" % (core.short_fn(x.path), x.line))
            obs.append(Ob("R17.asread", w.path, "nothing but the analysis looks at the file's text", not lookers, site=w.reads[0].where,
                          expected="the content read is handed to analyze_for_* and used nowhere else (an all-white-space test aside)", found=lookers[:6] or "no other use",
                          example="the same file with a long comment full of brackets in front of the first token"))
    # R17.opaque
    det = D.detector_bodies(crate)
    n_calls = 0
    bad = []
    for b in det.values():
        if b.derived:
            continue
        for s in S.call_sites(b):
            n_calls += 1
            if s.path.endswith(LOC_ACCESSORS) or s.resolved.endswith(LOC_ACCESSORS):
                bad.append((b, s, "location accessor %s" % s.path.rsplit("::", 2)[-2] + "::" + s.path.rsplit("::", 1)[-1]))
            if s.path in ORDERING and s.fn and s.fn.get("gargs") and "solang_parser::pt::Loc" in s.fn["gargs"][0]:
                bad.append((b, s, "ordering comparison on locations"))
        for bb in b.reach:
            for st in b.blocks[bb]["stmts"]:
                if st["k"] != "assign":
                    continue
                for pl in _places(st):
                    for e in pl["pr"]:
                        if isinstance(e, dict) and e.get("dc") == "File":
                            bad.append((b, None, "projection into Loc::File at line %d" % st["loc"]["line"]))
            t = b.blocks[bb]["term"]
            if t["k"] == "switch":
                dv = b.val_operand(t["d"])
                if dv[0] == "discr" and dv[2].replace("&", "").strip() == "solang_parser::pt::Loc":
                    bad.append((b, None, "match on the kind of a location at line %d" % b.blocks[bb]["tloc"]["line"]))
    for (b, s, why) in bad:
        obs.append(Ob("R17.opaque", b.path, why, False, site=s.where if s else None, expected="locations are opaque tokens inside detectors"))
    obs.append(Ob("R17.opaque", "detectors", "%d bodies, %d call sites: locations only moved / hashed / compared for equality" % (len(det), n_calls), not bad))
    # Loc::start is used exactly by the three analyze_for_* (and nowhere else in analysis code)
    for d in disp.values():
        if d.ok:
            st = [s for s in d.sites if s.path.endswith("Loc::start")]
            others = [s for s in d.sites if s.path.endswith(LOC_ACCESSORS) and not s.path.endswith("Loc::start")]
            obs.append(Ob("R17.opaque", d.path, "the only location accessor is start(), feeding the line lookup", len(st) == 1 and not others,
                          found=[s.path for s in st + others]))
    return obs


def _places(x):
    if isinstance(x, dict):
        if "l" in x and "pr" in x:
            yield x
        for v in x.values():
            yield from _places(v)
    elif isinstance(x, list):
        for v in x:
            yield from _places(v)
