"""C11 — the report lists exactly the findings, each under its own pattern's section (DESIGN 5/C11)."""
import re
from runner import Ob
from rules import depend
import sites as S
import terms as T
import order as O
from core import show
from rules import reportgen as R
from rules import names as N

META = {
    "level": "other",
    "rule": "per category: one obligation per pattern variant (section dispatch), per section literal, and the structural obligations of the entry "
            "construction in the generator; non-trivial = every obligation that compares a provenance, a literal or a dispatch target",
    "explanation": "R11.map: get_*_report_section is total on the pattern enum (no catch-all), injective (distinct variants -> distinct section functions) and "
                   "name-agreeing (section module = configuration name of the variant modulo a plural s); every section returns a distinct non-blank literal. "
                   "R11.entries: inside the loop over the findings, for every (file, lines) of this pattern and every line an entry \"- \" file \":\" line \"\\n\" is "
                   "appended to a list that is created for this pattern, closed and appended right after this pattern's section text; no filter, no dedup; the block is "
                   "emitted iff the pattern has at least one file. R11.literals: no line of a section/overview literal has the entry shape ^- .*:\\d+$ or starts with "
                   "'### Lines'. R11.concat: generate_report concatenates the three category blocks into the buffer handed to the single fs::write.",
    "assumptions": ["file names contain no line break (property quantifier)", "String::push_str / + append (std contract)"],
    "floors": {"R11.map": 30, "R11.entries": 12, "R11.literals": 30, "R11.concat": 3},
}

ENTRY_RE = re.compile(r"^- .*:\d+$")


def depluralise(name):
    return "_".join(w[:-1] if w.endswith("s") and len(w) > 3 else w for w in name.split("_"))


def run(ctx, crate):
    obs = []
    # every finding is listed: the part of a category is rendered iff that category has findings (C12's category guards)
    obs.append(depend.inherited(ctx, crate, "R11.parts", "report::generation::generate_report", "each category's part is rendered iff that category has findings (C12's obligations)",
                                "C12", lambda o: o.rule == "R12.category", example="a configuration with optimizations = [] and a vulnerability finding"))
    for cat in ("optimizations", "vulnerabilities", "qa"):
        # ---------------- R11.map
        tab, err = R.section_table(crate, cat)
        vs = N.variants(crate, cat)
        st, scrut, sprob = N.str_table(crate, cat)
        if tab is None or vs is None or st is None:
            obs.append(Ob("R11.map", R.SECTION_FNS[cat], "section dispatch analysable", False, found=err or sprob))
            continue
        cfg_name = {v: k for k, v in st.items()}
        seen_fn = {}
        lits = {}
        for v in vs:
            if v not in tab:
                obs.append(Ob("R11.map", R.SECTION_FNS[cat], "%s has a section" % v, False, expected="an arm for every variant", found="missing"))
                continue
            t = tab[v]
            if cat == "vulnerabilities":
                t = t[3][0] if (t[0] == "agg" and t[1] == "tuple" and t[3]) else t
            if not (t[0] == "call" and t[1].endswith("::report_section_content")):
                obs.append(Ob("R11.map", R.SECTION_FNS[cat], "%s -> section function" % v, False, found=show(t)))
                continue
            mod = t[1].rsplit("::", 2)[-2]
            cfg = cfg_name.get(v)
            agree = cfg is not None and depluralise(mod) == depluralise(cfg)
            dup = seen_fn.get(t[1])
            seen_fn[t[1]] = v
            obs.append(Ob("R11.map", R.SECTION_FNS[cat], "%s -> its own section" % v, agree and dup is None,
                          expected="section module named like the pattern (%s)" % cfg, found="%s%s" % (mod, (" (also used for %s)" % dup) if dup else "")))
            ls = R.literal_of_section(crate, t[1])
            lits[v] = ls
        # distinct non-blank literals
        for v, ls in lits.items():
            text = "".join(ls or [])
            blank = not text.strip()
            clash = [w for w, l2 in lits.items() if w != v and l2 == ls]
            if cat == "qa" and False:
                pass
            obs.append(Ob("R11.literals", R.SECTION_FNS[cat], "%s: section text distinct and non-blank" % v, (not blank) and not clash,
                          found="blank" if blank else ("same text as %s" % clash if clash else "%d chars" % len(text))))
            bad = [ln for ln in text.split("\n") if ENTRY_RE.match(ln) or ln.startswith("### Lines")]
            obs.append(Ob("R11.literals", R.SECTION_FNS[cat], "%s: no entry-shaped line in the section text" % v, not bad, found=bad[:3] if bad else "none"))
        # ---------------- R11.entries
        g = R.Gen(crate, cat)
        if not g.ok or g.problems:
            obs.append(Ob("R11.entries", R.GENERATORS[cat], "generator analysable", False, found=g.problems if g.ok else "missing"))
            continue
        b = g.body
        fn = g.path
        # loop nest provenance
        c_files = g.files.iterable == ("proj", g.E, ("f", 1, None)) or T.field_of(g.files.iterable) == (g.E, 1)
        c_lines = T.field_of(g.lines.iterable) == (g.F, 1)
        obs.append(Ob("R11.entries", fn, "loops: every (file, lines) of this pattern, every line of lines", bool(c_files and c_lines),
                      expected="files = pattern_entry.1 ; lines = file_entry.1", found="files=%s lines=%s" % (show(g.files.iterable), show(g.lines.iterable))))
        early = []
        for lp in (g.outer, g.files, g.lines):
            normal, extra = lp.exits()
            early += [b.blocks[x]["tloc"]["line"] for (x, t) in extra]
        obs.append(Ob("R11.entries", fn, "the loops over patterns, files and lines run to exhaustion", not early,
                      expected="no break / early return inside the rendering loops", found=("early exit at line(s) %s" % sorted(set(early))) if early else "exhaustion only"))
        # the findings handed in are only reordered (sort*), never shortened or merged
        altered = []
        for s in g.sites:
            if not s.args:
                continue
            root = s.args[0]
            t = root
            while t[0] in ("proj", "elem", "iter") or (t[0] == "call" and t[1] in ("std::iter::Iterator::collect",) and t[2]):
                t = t[2][0] if t[0] == "call" else t[1]
            if t[0] != "param":
                continue
            nm = s.path.rsplit("::", 1)[-1]
            if nm in ("dedup", "dedup_by", "dedup_by_key", "retain", "truncate", "pop", "remove", "swap_remove", "drain", "clear", "split_off", "insert", "push",
                      "append", "extend", "resize"):
                altered.append("%s at line %d" % (nm, s.line))
        obs.append(Ob("R11.entries", fn, "the findings are rendered as handed in (only reordered)", not altered,
                      expected="no dedup / retain / truncate on the findings", found=altered or "only sort",
                      example="the same file name with the same lines in two directories"))
        # the list object
        inner = [s for s in g.pushes if g.in_loop(s, g.lines)]
        bufs = set(s.args[0] for s in inner)
        if len(bufs) != 1:
            obs.append(Ob("R11.entries", fn, "one list buffer receives the entries", False, found=[show(x) for x in bufs]))
            continue
        buf = list(bufs)[0]
        cb = O.creation_block(b, buf)
        fresh = cb is not None and cb in g.outer.blocks and cb not in g.files.blocks
        obs.append(Ob("R11.entries", fn, "list buffer created afresh for each pattern", fresh, found="%s created in bb%s" % (show(buf), cb)))
        head = R.lit(buf)
        obs.append(Ob("R11.entries", fn, "list starts with the '### Lines' heading", head == "### Lines\n", found=head))
        inner.sort(key=g.order_key)
        pieces = []
        for s in inner:
            for p in R.flatten(s.args[1]):
                pieces.append(p)
        want = ["- ", g.F_0 if False else None]
        got = []
        for p in pieces:
            l = R.lit(p)
            got.append(repr(l) if l is not None else show(p))
        exp_terms = [("lit", "- "), ("term", ("proj", g.F, ("f", 0))), ("lit", ":"), ("term", g.L), ("lit", "\n")]
        ok = len(pieces) == 5
        if ok:
            for p, (k, x) in zip(pieces, exp_terms):
                if k == "lit":
                    ok = ok and R.lit(p) == x
                else:
                    if x[0] == "proj":
                        ok = ok and T.field_of(p) == (x[1], 0)
                    else:
                        ok = ok and p == x
        obs.append(Ob("R11.entries", fn, "entry = \"- \" file \":\" line \"\\n\"", ok, expected="'- ' ++ file ++ ':' ++ line ++ '\\n'", found=" ++ ".join(got)))
        # unconditional inside the nest: guards of the pushes = loop atoms + non-emptiness only
        gset = set()
        for s in inner:
            for c in (s.guard or []):
                gset |= set(c)
        nonempty = "gt(len(%s), 0)" % show(("proj", g.E, ("f", 1, None)))
        extra = sorted(a for a in gset if a != nonempty)
        obs.append(Ob("R11.entries", fn, "no filter on files or lines", not extra, expected="only the non-emptiness guard", found=extra or "none"))
        # after the loops: section + "\n" + list appended to a report buffer, once per pattern
        outs = [s for s in g.pushes if g.in_loop(s, g.outer) and not g.in_loop(s, g.files) and s.args[0] != buf]
        sect_ok = False
        # (what is appended to one buffer by consecutive appends under one and the same condition is one text, whether it was concatenated first or not)
        groups = {}
        for s in sorted(outs, key=g.order_key):
            groups.setdefault((s.args[0], repr(s.guard)), []).append(s)
        for (_recv, _g), members in sorted(groups.items(), key=lambda kv: g.order_key(kv[1][0])):
            s = members[-1]
            ps = [p_ for m_ in members for p_ in R.flatten(m_.args[1])]
            if len(ps) == 3 and R.lit(ps[1]) == "\n" and ps[2] == buf:
                sec = ps[0]
                # section text comes from the dispatch on this pattern's key
                from_key = any(c.args and T.field_of(c.args[0]) == (g.E, 0) for c in g.section_calls)
                txt_ok = (sec[0] in ("phi", "call", "proj")) and from_key
                after = all(b.dominates(g.files.site.bb, s.bb) for _ in [0])
                sect_ok = sect_ok or (txt_ok and after)
        # the buffer that collects the sections is one string created before the loop over the patterns: a buffer that is replaced on the way (a fresh
        # one for some pattern, an accumulator reset by an early `return String::new()`) forgets the sections appended before
        import order as O_
        recvs = []
        for s in outs:
            if s.args[0] not in recvs:
                recvs.append(s.args[0])
        def pre_created(r_, depth=0):
            if r_[0] == "phi" and depth < 4:
                return bool(r_[2]) and all(pre_created(m_, depth + 1) for m_ in r_[2])  # (one of several such buffers, chosen per pattern: `match severity { .. }`)
            return r_[0] in ("obj", "call") and O_.creation_block(b, r_) is not None and O_.creation_block(b, r_) not in g.outer.blocks
        one_buf = bool(recvs) and all(pre_created(r_) for r_ in recvs)  # (one per severity in the vulnerability report)
        obs.append(Ob("R11.entries", fn, "the sections are collected in buffers created before the loop over the patterns, never replaced", one_buf,
                      expected="each receiving String is one object created outside the loop", found=[show(x)[:80] for x in recvs],
                      example="a pattern without findings listed after one with findings"))
        obs.append(Ob("R11.entries", fn, "section text of this pattern, then its list, appended per pattern", sect_ok,
                      expected="push_str(report, section(key) + \"\\n\" + list) after the inner loops", found="%d candidate appends" % len(outs)))
        closes = [s for s in g.pushes if s.args[0] == buf and not g.in_loop(s, g.files) and g.in_loop(s, g.outer)]
        obs.append(Ob("R11.entries", fn, "list closed with a blank line", len(closes) == 1 and R.lit(closes[0].args[1]) == "\n\n",
                      found=[R.lit(s.args[1]) for s in closes]))
        # emitted iff non-empty
        gsec = g.section_calls[0].guard if g.section_calls else None
        only_nonempty = gsec == [[nonempty]]
        obs.append(Ob("R11.entries", fn, "section emitted iff the pattern has a file", only_nonempty, expected=nonempty, found=S.guard_str(gsec)))
        # overview literals
        for ov in g.overview:
            ls = R.literal_of_section(crate, ov.path) or []
            text = "".join(ls)
            bad = [ln for ln in text.split("\n") if ENTRY_RE.match(ln) or ln.startswith("### Lines")]
            obs.append(Ob("R11.literals", ov.path, "no entry-shaped line in the overview text", not bad, found=bad[:3] if bad else "none"))
    # ---------------- R11.concat
    gr = crate.bodies.get("report::generation::generate_report")
    if gr is None:
        obs.append(Ob("R11.concat", "report::generation::generate_report", "anchor function missing", False))
    else:
        ss = S.call_sites(gr)
        wr = [s for s in ss if s.path == "std::fs::write"]
        pushes = [s for s in ss if s.path in R.PUSH]
        if len(wr) != 1:
            obs.append(Ob("R11.concat", gr.path, "single write", False, found=len(wr)))
        else:
            rep = wr[0].args[1]
            for i, cat in enumerate(("vulnerabilities", "optimizations", "qa")):
                gen = R.GENERATORS[cat]
                ok = any(s.args[0] == rep and any(T.is_call(p_, gen.rsplit("::", 1)[-1]) and p_[2] and p_[2][0][0] == "param" for p_ in R.flatten(s.args[1])) for s in pushes)
                obs.append(Ob("R11.concat", gr.path, "%s block appended to the written buffer" % cat, ok,
                              expected="push_str(report, %s(map))" % gen.rsplit("::", 1)[-1]))
            # whatever else goes into the written buffer is constant text none of whose lines can be read as an entry or as the start of a list
            # (blank separators, a notice, a footer): anything computed, or a constant with an entry-shaped line, would be read back as a finding
            gens = tuple(g_.rsplit("::", 1)[-1] for g_ in R.GENERATORS.values())
            stray = []
            for s in pushes:
                if s.args[0] != rep:
                    continue
                a = s.args[1]
                # (a block and the text after it may be appended in one go: `generate(..) + "\n\n"`)
                pieces = [R.lit(p_) for p_ in R.flatten(a) if not any(T.is_call(p_, g_) for g_ in gens)]
                if all(p_ is not None for p_ in pieces):
                    text = "".join(pieces)
                    if not [ln for ln in text.split("\n") if ENTRY_RE.match(ln) or ln.startswith("### Lines")]:
                        continue
                    stray.append("entry-shaped constant %r" % text[:60])
                else:
                    stray.append("computed text %s" % show(a)[:80])
            obs.append(Ob("R11.concat", gr.path, "nothing else is written but constant text that cannot be read as an entry", not stray, found=stray or "none"))
    return obs
