"""C06 — declaration-level gas and QA detectors flag exactly their documented pattern (DESIGN 5/C06, section 8.2)."""
from runner import Ob
from rules import depend
import sites as S
import summary
from rules import detectors as D
from rules import speccmp
from rules import isolation

DETECTORS = {
    ("optimizations", "PayableFunction"): "payable_function",
    ("optimizations", "PrivateConstant"): "private_constant",
    ("qa", "PrivateVarsLeadingUnderscore"): "private_vars_leading_underscore",
    ("qa", "PrivateFuncLeadingUnderscore"): "private_func_leading_underscore",
    ("qa", "ConstructorOrder"): "constructor_order",
}
TABLE_FN = "analyzer::utils::get_32_byte_storage_variables"

META = {
    "level": "other",
    "rule": "per detector and reported location: must => code and code => envelope by ROBDD; the shared state-variable table against its own spec; "
            "per loop of each detector: isolation (no file-wide carried state, no early exit, no file-rooted search inside a per-item loop); non-trivial = "
            "implications and file-wide loops",
    "explanation": "The five declaration-level detectors' summaries are compared with DESIGN section 8.2 (specs/detectors.spec), including which location is reported "
                   "(definition / type of the declaration / name / constructor). private_constant and private_vars_leading_underscore read the state-variable table "
                   "of get_32_byte_storage_variables, whose own summary (which members are entered, under which flags they are skipped, what is recorded) is compared with "
                   "its spec. R06.isolate: the verdict on a declaration depends only on state whose provenance lies in its own contract: bound witnesses (e.g. the "
                   "function that precedes a constructor) range over the same contract's members, no mutable local is carried across a file-wide loop, no file-wide "
                   "loop is left early.",
    "assumptions": ["state-variable names are unique within the file (property quantifier): the name-keyed table does not merge distinct variables",
                    "specs/detectors.spec (DESIGN section 8.2) is the oracle"],
    "floors": {"R06.walker": 1, "R06.lines": 1, "R06.must": 6, "R06.mustnot": 6, "R06.isolate.loop": 6},
}


def run(ctx, crate):
    obs = []
    # occurrences count wherever they are nested: inherited from C01 (the search reaches every syntactic position)
    obs.append(depend.inherited(ctx, crate, "R06.walker", "analyzer::ast::walk_node_for_targets", "the search reaches every nested position (C01's obligations on the walker)",
                                "C01", lambda o: o.rule in ("R01.children", "R01.order", "R01.once", "R01.uncond", "R01.preorder", "R01.loops", "R01.entry"),
                                example="the pattern inside !( .. ) or inside a catch body"))
    # "a line is reported": the line is the detector's location converted by the shared lookup (C02's obligations on the line function and its use)
    obs.append(depend.inherited(ctx, crate, "R06.lines", "analyzer::utils::get_line_number", "a finding's line is the line its construct begins on (C02's obligations on the line lookup)",
                                "C02", lambda o: o.rule in ("R02.canon", "R02.range", "R02.plumb"), example="a multi-byte character in a comment before the construct"))
    spec = speccmp.load_spec()
    sm = summary.Summ(crate)
    disp = D.all_dispatch(crate)
    for (cat, variant), name in sorted(DETECTORS.items()):
        d = disp[cat]
        s = d.table.get(variant) if d.ok else None
        if s is None or name not in spec:
            obs.append(Ob("R06.must", D.ANALYZE[cat], "%s is dispatched and specified" % name, False))
            continue
        body = crate.bodies.get(s.resolved) or crate.bodies.get(s.path)
        obs += speccmp.compare("R06", crate, sm, body, spec[name])
        obs += isolation.check_body("R06.isolate", crate, body, name)
    tb = crate.bodies.get(TABLE_FN)
    if tb is None:
        obs.append(Ob("R06.must", TABLE_FN, "anchor missing", False))
    else:
        obs += speccmp.compare("R06", crate, sm, tb, spec["storage_table"], label="state-variable table")
    return obs
