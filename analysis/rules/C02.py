"""C02 — every reported line is the line on which the flagged construct begins (DESIGN 5/C02)."""
from runner import Ob
import sites as S
import terms as T
from core import show
import core
from rules import detectors as D

META = {
    "level": "other",
    "rule": "per analyze_for_* sibling: the operands of the line lookup and the loop that converts locations; for get_line_number: every returned value's "
            "range and the recognition of its counting form; per detector: the node whose location is reported (shared with C05-C09); non-trivial = all",
    "explanation": "R02.plumb: the first argument of every get_line_number call is Loc::start of an element of the dispatched detector's result, the second is the very "
                   "&str parameter that was parsed; every location is converted (loop over the whole set, no filter) and the set of lines is returned. "
                   "R02.range: every value returned by get_line_number is >= 1. R02.canon: the body is the canonical form "
                   "1 + |{ i < offset : text.bytes[i] == '\\n' }| (bytes().take(offset).filter(== b'\\n').count() + 1, the equivalent counting loop, or the table form: the ascending positions of the 0x0A bytes collected by one "
                   "complete forward loop over text.bytes().enumerate() and searched with partition_point(|p| *p < offset) + 1); byte offsets, "
                   "so CRLF and multi-byte characters before the construct are handled by construction. R02.where: for every detector with a specification, each location it inserts is - relative to the node it matched - one of the "
                   "report paths of its specification (the construct's own location, not that of an operand); which nodes match and when is decided by C05-C09.",
    "assumptions": ["Loc::start() is the byte offset of the first byte of the construct (parser contract)",
                    "Iterator::take/filter/count and str::bytes semantics (std contract)"],
    "floors": {"R02.plumb": 9, "R02.range": 1, "R02.canon": 1, "R02.where": 23, "R02.asread": 1},
}


def _relative(ps):
    """access path relative to the matched node: every `search{..}(..)[*]` prefix (innermost first) is replaced by `n`"""
    import re
    while True:
        k = ps.find("search{")
        if k < 0:
            return ps
        # find the matching parenthesis of the search's argument list
        p = ps.find("(", k)
        if p < 0:
            return ps
        depth, q = 0, p
        while q < len(ps):
            if ps[q] == "(":
                depth += 1
            elif ps[q] == ")":
                depth -= 1
                if depth == 0:
                    break
            q += 1
        if q >= len(ps):
            return ps
        m = re.match(r"\[\*(#[0-9?]+)?\]", ps[q + 1:])
        if not m:
            # a search result used as a whole: leave a marker so that the loop terminates
            ps = ps[:k] + "SEARCH" + ps[k + len("search"):]
            continue
        ps = ps[:k] + "n" + ps[q + 1 + m.end():]


def where_obligations(crate, disp):
    """R02.where: the location a detector hands to the line lookup is the location of the flagged construct itself (one of the report paths of its
    specification, taken relative to the matched node), not of a part of it or of a neighbour: a multi-line construct is reported where it begins.
    Which nodes are matched, and under which condition, is C05..C09's business."""
    import summary
    from rules import speccmp
    from core import show
    obs = []
    spec = speccmp.load_spec()
    sm = summary.Summ(crate)
    for d in disp.values():
        if not d.ok or d.problems:
            continue
        for variant, s in sorted(d.table.items()):
            body = crate.bodies.get(s.resolved) or crate.bodies.get(s.path)
            if body is None:
                continue
            name = body.path.split("::")[-2] if body.path.count("::") >= 2 else ""
            if name not in spec:
                continue
            want = set(_relative(ps) for (ps, _must, _may, _ln) in spec[name].reports)
            try:
                reps = sm.reports(body)
            except summary.Unanalysable as e:
                obs.append(Ob("R02.where", body.path, "%s: reported locations extractable" % name, False, found=str(e)))
                continue
            got = set()
            for (t, _f, _s) in reps:
                ps = _relative(show(t))
                m = speccmp_alt(ps)
                got |= m
            extra = sorted(got - want)
            obs.append(Ob("R02.where", body.path, "%s hands the flagged construct's own location to the line lookup" % name, not extra and bool(got),
                          expected="locations relative to the matched node: %s" % sorted(want), found=extra or sorted(got),
                          example="a require( whose && condition starts on the next line"))
    # detectors that report locations recorded in a helper's table (name -> location): the recorded location is the specified one
    OPT = "analyzer::optimizations::"
    for fnp, spec_name in ((OPT + "memory_to_calldata::get_function_definition_memory_args", "memory_args"),
                           (OPT + "immutable_variables::get_storage_variables_assigned_in_constructor", "constructor_assigned"),
                           ("analyzer::utils::get_32_byte_storage_variables", "storage_table")):
        hb = crate.bodies.get(fnp)
        if hb is None or spec_name not in spec:
            obs.append(Ob("R02.where", fnp, "%s: helper present" % spec_name, False))
            continue
        want = set(_relative(ps) for (ps, _must, _may, _ln) in spec[spec_name].reports)
        try:
            reps = sm.reports(hb)
        except summary.Unanalysable as e:
            obs.append(Ob("R02.where", fnp, "%s: recorded locations extractable" % spec_name, False, found=str(e)))
            continue
        got = set()
        for (t, _f, _s) in reps:
            got |= speccmp_alt(_relative(show(t)))
        extra = sorted(got - want)
        obs.append(Ob("R02.where", fnp, "%s records the location of the construct the detector is about" % spec_name, not extra and bool(got),
                      expected="recorded (name, location) pairs: %s" % sorted(want), found=extra or sorted(got),
                      example="a memory parameter whose type and `memory` keyword are on different lines"))
    return obs


def speccmp_alt(ps):
    """an or-pattern path base↓{A|B}.k stands for one path per alternative"""
    import re
    m = re.match(r"^(.*)↓\{([A-Za-z0-9_|]+)\}(.*)$", ps)
    if not m:
        return {ps}
    return set("%s↓%s%s" % (m.group(1), v, m.group(3)) for v in m.group(2).split("|"))


def run(ctx, crate):
    obs = []
    disp = D.all_dispatch(crate)
    obs += where_obligations(crate, disp)
    table_forms = 0
    for d in disp.values():
        if not d.ok or d.problems:
            obs.append(Ob("R02.plumb", d.path, "dispatch analysable", False, found=d.problems if d.ok else "missing"))
            continue
        b = d.body
        lf = [s for s in d.sites if s.path == D.LINE_FN]
        via = lookup_via(crate, d) if lf else None
        if not lf or via is not None:
            tf = table_form(crate, d, via)
            if tf is not None:
                obs += tf
                table_forms += 1
                continue
        if len(lf) != 1:
            obs.append(Ob("R02.plumb", d.path, "one line lookup", False, found=len(lf)))
            continue
        s = lf[0]
        locs = [c.result for c in d.table.values()]
        a0 = s.args[0]
        ok0 = T.is_call(a0, "Loc::start") and a0[2] and a0[2][0][0] == "elem"
        coll = a0[2][0][1] if ok0 else None
        members = set(coll[2]) if (coll is not None and coll[0] == "phi") else ({coll} if coll is not None else set())
        ok_src = ok0 and members == set(locs)
        obs.append(Ob("R02.plumb", d.path, "offset = start() of an element of the detector's result", bool(ok_src), site=s.where,
                      expected="get_line_number(loc.start(), ..) for loc in <result of the dispatched detector>", found=show(a0)[:120]))
        ok_txt = s.args[1] == ("param", 1) and d.parse.args[0] == ("param", 1)
        obs.append(Ob("R02.plumb", d.path, "the line is looked up in the same text that was parsed", ok_txt, site=s.where,
                      expected="second argument = the text parameter handed to the parser", found=show(s.args[1])[:80]))
        # conversion loop: unconditional, result inserted into the returned set
        ins = [x for x in d.sites if x.path.endswith("::insert") and x.args and x.args[0] == b.val_local(0)]
        g = s.guard
        sel = sorted(d.table)
        import order as O
        no_exit = all(not lp.exits()[1] for lp in O.loops_of_body(b))
        unconditional = g is not None and all(all(a.startswith("is(arg3; ") for a in c) for c in g) and len(b.loops_of(s.bb)) == 1 and no_exit
        inserted = len(ins) == 1 and len(ins[0].args) == 2 and ins[0].args[1] == s.result and ins[0].guard == g
        edited = sorted(set(l_ for site_ in d.table.values() for l_ in S.mutable_borrows_of_result(b, site_)))
        obs.append(Ob("R02.plumb", d.path, "every location is converted and kept", unconditional and inserted and not edited, site=s.where,
                      expected="for loc in locations { lines.insert(get_line_number(loc.start(), text)) }; return lines — the detector's set not edited in between",
                      found="unconditional=%s inserted_into_result=%s%s" % (unconditional, inserted, (" detector result borrowed mutably at line(s) %s" % edited) if edited else "")))
    # the text in which lines are counted is the file as it is on disk: a walker that analyses a trimmed / rewritten copy reports the copy's lines (C17's obligation)
    from rules import depend
    obs.append(depend.inherited(ctx, crate, "R02.asread", "analyze_dir x3", "the text analysed is the file's content as read (C17's obligation on what the walks hand to the analysis)",
                                "C17", lambda o: o.rule == "R17.asread", example="a file that starts with two blank lines"))
    # ---------------- get_line_number
    lb = crate.bodies.get(D.LINE_FN)
    if table_forms == len(disp) and table_forms > 0:
        return obs  # every lookup goes through a table of line-feed positions built from the text (judged above); there is no counting function left
    if lb is None:
        obs.append(Ob("R02.range", D.LINE_FN, "anchor missing", False))
        return obs
    tab = S.def_table(lb, 0)
    bad = []
    for bb, v in tab:
        lo = lower_bound(v)
        if lo is None or lo < 1:
            bad.append("%s (lower bound %s) at line %d" % (show(v)[:60], lo, lb.blocks[bb]["tloc"]["line"]))
    obs.append(Ob("R02.range", D.LINE_FN, "every returned line number is >= 1", not bad, expected="constants >= 1, counters starting >= 1 that only grow",
                  found=bad or [show(v)[:80] for _, v in tab],
                  example="a construct on the last line of a file that has no trailing line feed"))
    canon, why = canonical_count(crate, lb)
    obs.append(Ob("R02.canon", D.LINE_FN, "line = 1 + number of line feeds before the offset (canonical counting form)", canon,
                  expected="text.bytes().take(offset).filter(|b| *b == b'\\n').count() + 1", found=why,
                  note="when the form is not recognised the counting arithmetic is reported as not decided (fail closed)"))
    return obs


def lookup_via(crate, d):
    """the single call of the line function in this entry point, when that function is the searching half of the table form:
    fn(offset, table) = table.partition_point(|p| *p < offset) as i32 + 1. Returns (site, the value with the call's arguments put in) or None"""
    lf = [s for s in d.sites if s.path == D.LINE_FN]
    lb = crate.bodies.get(D.LINE_FN)
    if len(lf) != 1 or lb is None or lb.arg_count != 2 or len(lf[0].args) != 2:
        return None
    v = lb.val_local(0)
    if not (v[0] == "bin" and v[1] == "Add"):
        return None
    a, one = (v[2], v[3]) if v[3][0] == "const" else (v[3], v[2])
    casts = []
    while a[0] == "cast":
        casts.append(a)
        a = a[1]
    if not (one == ("const", "int", 1) and T.is_call(a, "partition_point") and len(a[2]) == 2):
        return None
    tab, clo = a[2]
    while tab[0] == "call" and tab[1].rsplit("::", 1)[-1] in ("deref", "as_ref", "borrow") and len(tab[2]) == 1:
        tab = tab[2][0]
    if tab != ("param", 2) or not (clo[0] == "agg" and clo[1] == "closure" and tuple(clo[3]) == (("param", 1),)):
        return None
    s = lf[0]
    inner = ("call", a[1], (s.args[1], ("agg", "closure", clo[2], (s.args[0],))), a[3] if len(a) > 3 else None)
    for c in reversed(casts):
        inner = ("cast", inner) + tuple(c[2:])
    return s, ("bin", "Add", inner, ("const", "int", 1))


def table_form(crate, d, via=None):
    """The other way to the same number: the positions of the line feeds of the text are collected once, in ascending order, and a location's line is
    1 + (how many of them lie before its offset), found by `partition_point(|p| *p < offset)`. Returns the obligations (same rules as the counting form), or
    None when the conversion does not have this shape at all."""
    import order as O
    b = d.body
    ins = [x for x in d.sites if x.path.endswith("::insert") and x.args and x.args[0] == b.val_local(0)]
    if len(ins) != 1 or len(ins[0].args) != 2:
        return None
    v = ins[0].args[1]
    if via is not None:
        if v != via[0].result:
            return None
        v = via[1]
    if not (v[0] == "bin" and v[1] == "Add"):
        return None
    a, one = v[2], v[3]
    if a[0] == "const":
        a, one = one, a
    while a[0] == "cast":
        a = a[1]
    if not (one == ("const", "int", 1) and T.is_call(a, "partition_point") and len(a[2]) == 2):
        return None
    tab, clo = a[2]
    while tab[0] == "call" and tab[1].rsplit("::", 1)[-1] in ("deref", "as_ref", "borrow", "as_slice") and len(tab[2]) == 1:
        tab = tab[2][0]
    obs = []
    s = ins[0]
    pps = [x for x in d.sites if x.path.endswith("::partition_point") and x.args and x.args[0] == tab] if via is None else [via[0]]
    where = pps[0].where if pps else s.where
    # --- the offset looked up
    locs = [c.result for c in d.table.values()]
    off = clo[3][0] if (clo[0] == "agg" and clo[1] == "closure" and len(clo[3]) == 1) else None
    ok0 = off is not None and T.is_call(off, "Loc::start") and off[2] and off[2][0][0] == "elem"
    coll = off[2][0][1] if ok0 else None
    members = set(coll[2]) if (coll is not None and coll[0] == "phi") else ({coll} if coll is not None else set())
    obs.append(Ob("R02.plumb", d.path, "offset = start() of an element of the detector's result", bool(ok0 and members == set(locs)), site=where,
                  expected="the offset compared with the table is loc.start() for loc in <result of the dispatched detector>", found=show(off)[:120] if off is not None else show(clo)[:120]))
    # --- the table: positions of the line feeds of the parsed text, ascending
    why = []
    cb = crate.bodies.get(clo[2]) if clo[0] == "agg" and clo[1] == "closure" else None
    cap = ("proj", ("param", 1), ("f", 0, None))
    pred = cb.val_local(0) if cb is not None else None
    if pred not in (("bin", "Lt", ("param", 2), cap), ("bin", "Gt", cap, ("param", 2))):
        why.append("the predicate of partition_point is %s, not `*position < offset`" % (show(pred) if pred is not None else "unknown"))
    created = O.creation_block(b, tab)
    if not (tab[0] == "call" and tab[1].startswith("std::vec::Vec::") and tab[1].rsplit("::", 1)[-1] in ("new", "with_capacity")) or created is None or b.loops_of(created):
        why.append("the table is not a vector created once in this function")
    READS = ("deref", "as_slice", "len", "is_empty", "partition_point", "as_ref", "borrow", "iter")
    uses = [x for x in d.sites if x.args and any(T.contains(y, tab) for y in x.args) and x is not s and not (via is not None and x is via[0])]
    pushes = [x for x in uses if x.path.endswith("::push") and x.args[0] == tab]
    others = [x for x in uses if x not in pushes and not (x.args[0] == tab and x.path.rsplit("::", 1)[-1] in READS)]
    if others:
        why.append("the table is also handed to %s" % ", ".join(sorted(set(core.short_fn(x.path) for x in others))))
    text_ok = False
    if len(pushes) != 1:
        why.append("%d pushes into the table" % len(pushes))
    else:
        p = pushes[0]
        val = p.args[1]
        by = val[1] if val[0] == "idx" else None
        lps = [lp for lp in O.loops_of_body(b) if p.bb in lp.blocks and b.loops_of(p.bb) == [lp.head]]
        if by is None or not T.is_call(by, "bytes") or not by[2]:
            why.append("what is pushed is %s, not the position of a byte of the text" % show(val)[:60])
        elif len(lps) != 1 or lps[0].iterable != ("enumerate", by) or lps[0].order != "ordered" or lps[0].exits()[1]:
            why.append("the positions are not collected by one forward loop over text.bytes().enumerate() that runs to the end")
        else:
            lp = lps[0]
            text_ok = by[2][0] == ("param", 1) and d.parse.args[0] == ("param", 1)
            gp = S.block_guard(b, p.bb, {("elem", by): "b"}) or []
            gl = S.block_guard(b, lp.site.bb, {("elem", by): "b"}) or [[]]
            extra = [sorted(set(c) - set(gl[0])) for c in gp] if len(gl) == 1 else None
            if extra != [["eq(b, 10)"]]:
                why.append("a position is recorded under %s, not exactly for the bytes that are line feeds" % S.guard_str(gp)[-80:])
            if not pps or not all(b.dominates(lp.head, x.bb) and x.bb not in lp.blocks for x in pps):
                why.append("the table is consulted before it is complete")
    obs.append(Ob("R02.plumb", d.path, "the line is looked up in the same text that was parsed", text_ok, site=where,
                  expected="the table is built from the text parameter handed to the parser", found="table of %s" % (show(pushes[0].args[1])[:60] if len(pushes) == 1 else "?")))
    obs.append(Ob("R02.canon", d.path, "line = 1 + number of line feeds before the offset (table of line-feed positions, searched)", not why, site=where,
                  expected="positions of the 0x0A bytes of the text in ascending order; line = partition_point(|p| *p < offset) + 1", found=why or "positions of 0x0A ascending, partition_point(< offset) + 1",
                  note="a line-feed position p precedes the offset iff p < offset, and the positions are ascending, so the partition point is their number"))
    obs.append(Ob("R02.range", d.path, "every returned line number is >= 1", True, site=where, found="partition_point(..) + 1"))
    # --- every location converted and kept
    g = s.guard
    nonempty = "gt(len(%s), 0)" % show(coll) if coll is not None else None
    no_exit = all(not lp.exits()[1] for lp in O.loops_of_body(b))
    unconditional = g is not None and all(all(x.startswith("is(arg3; ") or x == nonempty for x in c) for c in g) and len(b.loops_of(s.bb)) == 1 and no_exit
    edited = sorted(set(l_ for site_ in d.table.values() for l_ in S.mutable_borrows_of_result(b, site_)))
    obs.append(Ob("R02.plumb", d.path, "every location is converted and kept", unconditional and not edited, site=s.where,
                  expected="for loc in locations { lines.insert(line of loc.start()) }; return lines — the detector's set not edited in between",
                  found="unconditional=%s%s" % (unconditional, (" detector result borrowed mutably at line(s) %s" % edited) if edited else "")))
    return obs


def lower_bound(v, depth=0):
    """conservative lower bound of an integer term, None if unknown"""
    if depth > 8:
        return None
    k = v[0]
    if k == "const" and v[1] == "int":
        return v[2]
    if k == "cast":
        inner = lower_bound(v[1], depth + 1)
        return inner
    if k == "len":
        return 0
    if k == "call" and v[1].endswith(("Iterator::count", "::len")):
        return 0
    if k == "bin" and v[1] == "Add":
        a, b = lower_bound(v[2], depth + 1), lower_bound(v[3], depth + 1)
        if a is None or b is None:
            return None
        return a + b
    if k == "phi":
        # counter: {c | rec + positive}: lower bound = min of the non-recursive members if the recursive ones only add >= 0
        base = []
        for m in v[2]:
            if m[0] == "bin" and m[1] == "Add" and m[2] == ("rec", v[1]):
                inc = lower_bound(m[3], depth + 1)
                if inc is None or inc < 0:
                    return None
            elif m[0] == "rec":
                continue
            else:
                lb = lower_bound(m, depth + 1)
                if lb is None:
                    return None
                base.append(lb)
        return min(base) if base else None
    return None


def canonical_count(crate, lb):
    v = lb.val_local(0)
    # Add(cast(count(filter(take(bytes(text), offset), closure))), 1)
    if v[0] == "bin" and v[1] == "Add":
        a, b = v[2], v[3]
        if a[0] == "const":
            a, b = b, a
        if b == ("const", "int", 1):
            while a[0] == "cast":
                a = a[1]
            if T.is_call(a, "Iterator::count") and a[2]:
                f = a[2][0]
                if T.is_call(f, "Iterator::filter") and len(f[2]) == 2:
                    src, clo = f[2]
                    if T.is_call(src, "Iterator::take") and len(src[2]) == 2 and src[2][1] == ("param", 1):
                        by = src[2][0]
                        if T.is_call(by, "bytes") and by[2] and by[2][0] == ("param", 2):
                            if clo[0] == "agg" and clo[1] == "closure":
                                cb = crate.bodies.get(clo[2])
                                if cb is not None:
                                    r = cb.val_local(0)
                                    if r == ("bin", "Eq", ("param", 2), ("const", "int", 10)) or r == ("bin", "Eq", ("const", "int", 10), ("param", 2)):
                                        return True, "bytes().take(offset).filter(== 0x0A).count() + 1"
                                    return False, "filter predicate is %s" % show(r)
    # the same count written as a loop:  n = 0; for b in text.bytes().take(offset) { if b == b'\n' { n += 1 } }  ;  n + 1
    if v[0] == "bin" and v[1] == "Add":
        a, b = v[2], v[3]
        if a[0] == "const":
            a, b = b, a
        while a[0] == "cast":
            a = a[1]
        if b == ("const", "int", 1) and a[0] == "phi" and len(a[2]) == 2 and ("const", "int", 0) in a[2] and ("bin", "Add", ("rec", a[1]), ("const", "int", 1)) in a[2] \
                and a[1][0] == lb.path:
            import order as O
            cnt = a[1][1]
            incs = [d for d in lb.defs.get(cnt, []) if not (d[3] == "rv" and d[4]["k"] == "use" and d[4]["o"]["k"] == "const")]
            loops = O.loops_of_body(lb)
            if len(incs) == 1 and len(loops) == 1:
                lp = loops[0]
                it = lp.iterable
                src_ok = T.is_call(it, "Iterator::take") and len(it[2]) == 2 and it[2][1] == ("param", 1) and T.is_call(it[2][0], "bytes") and it[2][0][2] and it[2][0][2][0] == ("param", 2)
                g = S.block_guard(lb, incs[0][0], {("elem", it): "b"})
                guard_ok = g == [["eq(b, 10)"]]
                if src_ok and guard_ok and incs[0][0] in lp.blocks and not lp.exits()[1] and not lb.loops_of(lp.site.bb)[:-1]:
                    return True, "counting loop over bytes().take(offset), +1 per 0x0A, result + 1"
                return False, "counting loop: source_ok=%s increment guard=%s early exits=%s" % (src_ok, S.guard_str(g), bool(lp.exits()[1]))
    return False, "unrecognised form: %s" % show(v)[:160]
