"""C14 — configuration selects exactly the named patterns and the named directory (DESIGN 5/C14)."""
import json, os, re
try:
    import tomllib
except Exception:  # pragma: no cover
    tomllib = None
from runner import Ob
import sites as S
import terms as T
from core import show
from rules import names as N

META = {
    "level": "other",
    "rule": "one obligation per documented / sample-config / default-list name and per table entry, plus the structural obligations of Opts::new "
            "(selection, precedence, field use) and of main (ordering); non-trivial = every obligation comparing two independently maintained tables or a guard",
    "explanation": "R14.tables: str_to_* extracted from MIR as literal -> variant tables (the eq-chain on to_lowercase(param)); keys lower-case, table injective, "
                   "get_all_* = all enum variants = image of the table; every name in the docs tables and in Solstat.toml is a key. R14.unknown: the fall-through arm "
                   "diverges and Opts::new dominates every analysis call and generate_report in main. R14.select: with --toml each list is the image of the toml list under "
                   "the table (map over the whole list, collect), without it get_all_*. R14.fields: every field of the deserialised config is read. R14.applied: main passes opts.path and each category's own list unmodified to that category's walk, which applies every listed "
                   "pattern to every file (C03's per-file obligations, inherited). R14.path: Opts.path = "
                   "--path if given, else the toml's path if a toml was given, else ./contracts.",
    "assumptions": ["clap's argument parsing and toml/serde deserialisation are trusted", "str::to_lowercase lower-cases ASCII letters (std contract)"],
    "floors": {"R14.tables": 60, "R14.unknown": 4, "R14.select": 6, "R14.fields": 4, "R14.path": 3, "R14.applied": 4},
}

DOCS = {"optimizations": "docs/identified-optimizations.md", "vulnerabilities": "docs/identified-vulnerabilities.md", "qa": "docs/identified-quality-assurance.md"}


def doc_names(text):
    out = []
    for line in text.splitlines():
        if not line.startswith("|"):
            continue
        cells = [c.strip() for c in line.strip().strip("|").split("|")]
        if not cells or not cells[0] or set(cells[0]) <= set("-: "):
            continue
        first = cells[0].strip("`* ")
        if re.fullmatch(r"[a-z0-9_]+", first):
            out.append(first)
    return out


def run(ctx, crate):
    obs = []
    tables = {}
    for cat in ("optimizations", "vulnerabilities", "qa"):
        fn = N.CATS[cat][0]
        tab, scrut, probs = N.str_table(crate, cat)
        if tab is None or probs:
            obs.append(Ob("R14.tables", fn, "name table analysable", False, found=probs))
            if tab is None:
                continue
        tables[cat] = tab
        vs = N.variants(crate, cat) or []
        al = N.all_list(crate, cat)
        obs.append(Ob("R14.tables", fn, "names are matched after lower-casing the input", scrut == ["str::to_lowercase(arg1)"],
                      expected="every comparison is on to_lowercase(name)", found=scrut))
        inv = {}
        for k, v in sorted(tab.items()):
            ok = k == k.lower() and re.fullmatch(r"[a-z0-9_]+", k) is not None
            dup = inv.get(v)
            inv[v] = k
            obs.append(Ob("R14.tables", fn, "key %r" % k, ok and v in vs,
                          expected="lower-case key naming an existing variant", found="%s -> %s%s" % (k, v, " (variant also named %r)" % dup if dup else "")))
        for v in vs:
            obs.append(Ob("R14.tables", fn, "variant %s selectable by name" % v, v in inv, expected="a key for every variant", found=inv.get(v)))
        if al is None:
            obs.append(Ob("R14.tables", N.CATS[cat][1], "default list analysable", False))
        else:
            obs.append(Ob("R14.tables", N.CATS[cat][1], "default list = all variants, each once", sorted(al) == sorted(vs),
                          expected=sorted(vs), found=sorted(al)))
        # documentation
        try:
            dn = doc_names(ctx.read(DOCS[cat]))
        except Exception as e:
            dn = None
            obs.append(Ob("R14.tables", DOCS[cat], "docs table readable", False, found=str(e)))
        if dn is not None:
            if len(dn) < len(vs):
                obs.append(Ob("R14.tables", DOCS[cat], "docs table lists every pattern", False, expected=len(vs), found=len(dn)))
            seen = {}
            for name in dn:
                v = tab.get(name.lower())
                obs.append(Ob("R14.tables", DOCS[cat], "documented name %r is accepted" % name, v is not None and seen.get(v) in (None, name),
                              expected="a key of %s selecting its own pattern" % fn.rsplit("::", 1)[-1], found=v,
                              example="Solstat.toml with %s = [\"%s\"]" % (cat, name)))
                if v is not None:
                    seen[v] = name
    # sample configuration
    try:
        cfg = tomllib.loads(ctx.read("Solstat.toml"))
    except Exception as e:
        cfg = None
        obs.append(Ob("R14.tables", "Solstat.toml", "sample configuration readable", False, found=str(e)))
    if cfg is not None:
        for cat in ("optimizations", "vulnerabilities", "qa"):
            for name in cfg.get(cat, []):
                obs.append(Ob("R14.tables", "Solstat.toml", "sample name %r (%s) is accepted" % (name, cat), name.lower() in tables.get(cat, {}),
                              expected="a key of the %s table" % cat))
        obs.append(Ob("R14.tables", "Solstat.toml", "sample configuration sets path", isinstance(cfg.get("path"), str), found=cfg.get("path")))
    # ---------------- R14.unknown
    for cat in ("optimizations", "vulnerabilities", "qa"):
        ok, where = N.default_arm_diverges(crate, cat)
        obs.append(Ob("R14.unknown", N.CATS[cat][0], "unknown name diverges (no pattern is returned)", ok, expected="the fall-through arm panics", found=where))
    if crate.ctype != "executable":
        return obs
    main = crate.bodies.get("main")
    on = crate.bodies.get("opts::Opts::new")
    if main is None or on is None:
        obs.append(Ob("R14.unknown", "main", "anchor functions main / Opts::new present", False))
        return obs
    ms = S.call_sites(main)
    oc = [s for s in ms if s.path == "opts::Opts::new"]
    later = [s for s in ms if s.path.endswith("::analyze_dir") or s.path.startswith("report::generation::")]
    ok = len(oc) == 1 and len([s for s in later if s.path.endswith("::analyze_dir")]) == 3 and len(later) >= 4 and \
        all(main.dominates(oc[0].bb, s.bb) and oc[0].bb != s.bb for s in later)
    obs.append(Ob("R14.unknown", "main", "options are resolved before any analysis or report", ok, expected="Opts::new dominates analyze_dir x3 and generate_report",
                  found=[s.path for s in later]))
    # ---------------- R14.applied: what was selected is what is analysed: main hands each category's list and the directory of the resolved options,
    # unmodified, to that category's walk, and the walk applies every listed pattern to every file (C03's obligations on the per-file loop and on what the nested walk is handed)
    from rules import depend
    for cat, fld in (("optimizations", "optimizations"), ("vulnerabilities", "vulnerabilities"), ("qa", "qa")):
        calls = [s for s in ms if s.path == "analyzer::%s::analyze_dir" % cat]
        ok_h = False
        found_h = None
        if len(calls) == 1 and len(oc) == 1 and len(calls[0].args) == 2:
            a0, a1 = calls[0].args
            ok_h = a0[0] == "proj" and a0[1] == oc[0].result and a0[2][0] == "f" and a0[2][2] == "path" and \
                a1[0] == "proj" and a1[1] == oc[0].result and a1[2][0] == "f" and a1[2][2] == fld
            found_h = [show(a0)[:60], show(a1)[:60]]
        obs.append(Ob("R14.applied", "main", "%s: the walk receives the resolved directory and exactly the selected list" % cat, ok_h,
                      expected="analyze_dir(opts.path, opts.%s)" % fld, found=found_h, example="a configuration listing two patterns in the opposite order"))
    obs.append(depend.inherited(ctx, crate, "R14.applied", "analyze_dir x3", "every listed pattern is applied to every analysed file, whatever the order of the list "
                                "(C03's obligations on the per-file loop and on what the nested walk is handed)", "C03", lambda o: o.rule in ("R03.perfile", "R03.loops", "R03.recurse"),
                                example="optimizations = [\"safe_math_pre_080\", \"address_zero\"] versus the reverse order"))
    # ---------------- R14.select / R14.fields / R14.path
    sites = S.call_sites(on)
    ret = on.val_local(0)
    if not (ret[0] == "agg" and ret[1] == "adt" and ret[2].endswith("Opts::Opts")):
        obs.append(Ob("R14.select", on.path, "Opts constructed at the end", False, found=show(ret)[:100]))
        return obs
    adt = crate.adts.get("opts::Opts")
    fields = [f["name"] for f in adt["variants"][0]["fields"]] if adt else []
    toml_adt = crate.adts.get("opts::SolstatToml")
    toml_fields = [f["name"] for f in toml_adt["variants"][0]["fields"]] if toml_adt else []
    parsed = [s for s in sites if s.path.startswith("toml::") and s.path.endswith("from_str")]
    cfg_t = None
    if len(parsed) == 1:
        cfg_t = parsed[0].result
    obs.append(Ob("R14.select", on.path, "one toml document is parsed", cfg_t is not None, found=len(parsed)))
    if cfg_t is not None:
        src = parsed[0].args[0] if parsed[0].args else None
        raw = T.strip_unwrap(src) if src is not None else None
        toml_arg = ("proj", args_v_early(sites), ("f", 1, "toml")) if args_v_early(sites) is not None else None
        ok_src = raw is not None and T.is_call(raw, "fs::read_to_string") and raw[2] and toml_arg is not None and T.strip_unwrap(raw[2][0]) == toml_arg
        obs.append(Ob("R14.select", on.path, "the configuration file named by --toml is parsed as it is (no rewriting of its text)", bool(ok_src),
                      expected="toml::from_str(read_to_string(--toml)?)", found=show(src)[:120] if src is not None else None,
                      example="a configuration whose path contains an upper-case letter"))
    args_t = [s for s in sites if s.path.endswith("Parser::parse")]
    args_v = args_t[0].result if args_t else None
    for cat, strfn, allfn in (("optimizations", "str_to_optimization", "get_all_optimizations"), ("vulnerabilities", "str_to_vulnerability", "get_all_vulnerabilities"),
                               ("qa", "str_to_qa", "get_all_qa")):
        if cat not in fields:
            obs.append(Ob("R14.select", on.path, "Opts has a %s list" % cat, False))
            continue
        v = ret[3][fields.index(cat)]
        alts = list(v[2]) if v[0] == "phi" else [v]
        # with --toml: a list created empty and filled by one unconditional push per element of the configuration's list, the pushed value being
        # strfn(element)  (`.iter().map(|f| strfn(f)).collect()` is normalised to this loop by analysis/prep.py)
        with_toml = [a for a in alts if a[0] == "call" and a[1].endswith("Vec::<T>::new")]
        without = [a for a in alts if T.is_call(a, allfn)]
        ok1 = False
        why = ""
        if len(with_toml) == 1 and cfg_t is not None:
            lst = with_toml[0]
            pushes = [s_ for s_ in sites if s_.path == "std::vec::Vec::<T, A>::push" and s_.args and s_.args[0] == lst]
            others = [s_ for s_ in sites if s_.args and s_.args[0] == lst and s_ not in pushes and not s_.path.endswith(("::new", "::len", "::iter", "::clone"))]
            if len(pushes) == 1 and not others:
                p = pushes[0]
                val = p.args[1]
                called = T.is_call(val, strfn) and len(val[2]) == 1
                el = val[2][0] if called else None
                src = el[1] if el is not None and el[0] == "elem" else None
                src_ok = src is not None and T.contains(src, cfg_t) and T.field_of(src) is not None and src[2][2] == cat
                import order as O
                lps = [lp for lp in O.loops_of_body(on) if p.bb in lp.blocks]
                loop_ok = len(lps) == 1 and not lps[0].exits()[1] and lps[0].iterable == src
                created = O.creation_block(on, lst)
                guard_ok = created is not None and S.block_guard(on, p.bb) == S.block_guard(on, created)
                ok1 = bool(called and src_ok and loop_ok and guard_ok)
                why = "pushed=%s source=%s whole_list_unconditionally=%s" % (show(val)[:60], show(src)[-40:] if src is not None else None, bool(loop_ok and guard_ok))
            else:
                why = "pushes=%d other uses=%d" % (len(pushes), len(others))
        obs.append(Ob("R14.select", on.path, "with --toml: %s = the toml list mapped through %s" % (cat, strfn), ok1,
                      expected="for every name of toml.%s, in order: push(%s(name))" % (cat, strfn), found=why or [show(a)[:80] for a in alts]))
        obs.append(Ob("R14.select", on.path, "without --toml: %s = %s()" % (cat, allfn), len(without) == 1 and len(alts) == 2,
                      found=[show(a)[:60] for a in alts]))
    # guards: the toml alternative is selected by `--toml given`
    if cfg_t is not None and args_v is not None and parsed:
        g = parsed[0].guard
        want = [["is(%s; Some)" % show(("proj", args_v, ("f", 1, "toml")))]]
        ok_g = g == want
        if not ok_g and g is not None and len(g) == 1 and set(want[0]) <= set(g[0]):
            # further conditions of the form "the read / the parse before it succeeded" are no restriction when the failure does not come back from Opts::new
            # (a message and process::exit(1) where an expect panicked): every normal run with --toml still reads and parses the file
            extra = [a for a in g[0] if a not in want[0]]
            rets = [bb for bb in on.reach if on.blocks[bb]["term"]["k"] == "return"]
            rg = [c for bb in rets for c in (S.block_guard(on, bb) or [["?"]])]
            ok_g = all(a.startswith("is(") and a.endswith(("; Ok)", "; Some)")) and ("fs::read_to_string(" in a or "from_str(" in a) and
                       not any(("!" + a) in c or "?" in c for c in rg) for a in extra)
        obs.append(Ob("R14.select", on.path, "the configuration file is read iff --toml is given", ok_g, expected=S.guard_str(want), found=S.guard_str(g)))
    # fields of the config all read
    allterms = set()
    for s in sites:
        for a in s.args:
            for x in T.subterms(a):
                allterms.add(x)
    for x in T.subterms(ret):
        allterms.add(x)
    for f in toml_fields:
        used = any(x[0] == "proj" and x[2][0] == "f" and len(x[2]) > 2 and x[2][2] == f and cfg_t is not None and T.contains(x, cfg_t) for x in allterms)
        obs.append(Ob("R14.fields", on.path, "configuration field `%s` is used" % f, used, expected="every field of SolstatToml is read",
                      example="Solstat.toml with path = './src' and no --path flag"))
    # R14.path
    if "path" in fields and args_v is not None:
        pv = ret[3][fields.index("path")]
        alts = list(pv[2]) if pv[0] == "phi" else [pv]
        for _flat in range(4):  # (a choice made in two steps - `flag.or(file)`, then the default - is a choice among three)
            alts = [m for a in alts for m in (a[2] if a[0] == "phi" else [a])]
        argp = ("proj", args_v, ("f", 0, "path"))
        kinds = {}
        for a in alts:
            if T.contains(a, argp):
                kinds["flag"] = a
            elif cfg_t is not None and T.contains(a, cfg_t):
                kinds["toml"] = a
            elif R_lit(a) == "./contracts":
                kinds["default"] = a
            else:
                kinds["other:" + show(a)[:40]] = a
        obs.append(Ob("R14.path", on.path, "--path is used when given", "flag" in kinds, found=sorted(kinds)))
        obs.append(Ob("R14.path", on.path, "otherwise the configuration file's path", "toml" in kinds and toml_field_is(kinds.get("toml"), "path"), found=sorted(kinds),
                      example="solstat --toml cfg.toml where cfg.toml sets path = './src'"))
        obs.append(Ob("R14.path", on.path, "otherwise ./contracts", "default" in kinds and len(kinds) == 3, found=sorted(kinds)))
        # precedence: the definitions' guards
        ptab = S.def_table(on, path_local(on, pv))
        prec_ok = True
        desc = []
        for bb, v in ptab:
            g = S.block_guard(on, bb)
            desc.append("%s when %s" % (show(v)[-40:], S.guard_str(g)))
            flag_some = "is(%s; Some)" % show(argp)
            if T.contains(v, argp):
                prec_ok = prec_ok and g is not None and all(flag_some in c for c in g)
            else:
                prec_ok = prec_ok and g is not None and all(("!" + flag_some) in c for c in g)
                if cfg_t is not None and T.contains(v, cfg_t):
                    pass
                elif R_lit(v) == "./contracts":
                    # default only when no toml path is available
                    prec_ok = prec_ok and ("toml" not in kinds or all(any(a.startswith("!is(") and "toml" in a or a.startswith("!is(") and "?" not in a and a != "!" + flag_some for a in c) for c in g))
        obs.append(Ob("R14.path", on.path, "precedence flag > file > default", prec_ok and len(kinds) == 3, found=desc))
    return obs


def args_v_early(sites):
    a = [s for s in sites if s.path.endswith("Parser::parse")]
    return a[0].result if a else None


def R_lit(t):
    if t[0] == "const" and t[1] == "str":
        return t[2]
    if t[0] == "obj" and t[2][0] == "const":
        return t[2][2]
    return None


def toml_field_is(t, name):
    if t is None:
        return False
    for x in T.subterms(t):
        if x[0] == "proj" and x[2][0] == "f" and len(x[2]) > 2 and x[2][2] == name:
            return True
    return False


def path_local(body, pv):
    if pv[0] == "phi":
        return pv[1][1]
    # single definition: find the local through the aggregate operand
    return -1
