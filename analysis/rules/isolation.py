"""Cross-item channels inside detectors (DESIGN 5/C19, used by C06 R06.isolate): loop-carried state in file-wide loops, early exits,
file-rooted searches inside per-item loops, file-wide tables."""
import sites as S
import terms as T
import order as O
import core
from core import show
from runner import Ob

FILE = ("agg", "adt", "analyzer::ast::Node::SourceUnit", (("param", 1),))
MUTATORS = ("push", "append", "extend", "insert", "remove", "clear", "sort", "sort_by", "sort_by_key", "sort_unstable", "truncate", "pop", "retain", "drain",
            "dedup", "dedup_by", "dedup_by_key", "push_str", "swap_remove", "resize", "extend_from_slice", "reverse")


def rooted_in_file(t, body=None):
    if body is not None and not (body.arg_count >= 1 and body.local_ty(1) == "solang_parser::pt::SourceUnit"):
        return False
    """the collection is derived from the whole file (a search rooted at the file, or the file's own part list)"""
    while True:
        if t[0] in ("proj", "elem", "iter", "enumerate"):
            t = t[1]
            continue
        if t[0] == "call" and t[1].startswith("std::iter::Iterator::") and t[2]:
            t = t[2][0]
            continue
        if t[0] == "call" and t[1] in core.SEARCH_FNS and len(t[2]) == 2:
            root = t[2][1]
            return root == FILE or (root[0] == "agg" and root[3] and root[3][0] == ("param", 1))
        if t[0] == "call" and t[2]:
            # helper tables built from the file
            return any(a == ("param", 1) for a in t[2])
        return t == ("param", 1)


def item_scoped(t):
    """the collection lies inside one top-level item: its root is an element of a file-rooted search or a projection of it"""
    while True:
        if t[0] in ("proj", "iter"):
            t = t[1]
            continue
        if t[0] == "elem":
            return True
        if t[0] == "enumerate":
            t = t[1]
            continue
        if t[0] == "call" and t[1].startswith("std::iter::Iterator::") and t[2]:
            t = t[2][0]
            continue
        if t[0] == "call" and t[1] in core.SEARCH_FNS and len(t[2]) == 2:
            root = t[2][1]
            if root == FILE:
                return False
            return True
        return False


def carried_state(b, lp):
    """user locals whose value at the loop's head is looked at inside the loop: set before the loop and inside it, and read on some way from the head that
    passes no plain re-initialisation first. A commutative update of the local by itself (`n += 1`, `seen |= x`) is neither a look nor a re-initialisation:
    the final value does not depend on the order. What such a local holds at an element depends on which elements came first"""
    import prep as _p
    out = []
    COMMUT = ("Add", "AddWithOverflow", "AddUnchecked", "BitOr", "BitAnd", "BitXor", "Mul", "MulWithOverflow")
    if lp.head is None:
        return out
    for l in range(1, len(b.locals)):
        if not b.locals[l].get("user"):
            continue
        ds = [d for d in b.defs.get(l, []) if d[2] == []]
        if not any(d[0] in lp.blocks for d in ds) or not any(d[0] not in lp.blocks for d in ds):
            continue
        own = {l}  # l and the temporaries that only carry `l (op) x` back into l
        events = {}
        for bb in sorted(lp.blocks):
            blk = b.blocks[bb]
            ev = []
            for st in blk["stmts"]:
                if st["k"] != "assign":
                    continue
                acc = set()
                _p.locals_in(st["rv"], acc)
                dst = st["p"]["l"]
                if not (acc & own):
                    if dst == l and not st["p"]["pr"]:
                        ev.append(("kill", 0))
                    continue
                if st["rv"]["k"] == "bin" and st["rv"].get("op") in COMMUT and (dst == l or not b.locals[dst].get("user")):
                    own.add(dst)
                    continue
                if st["rv"]["k"] == "use" and dst == l:
                    continue
                ev.append(("read", st.get("loc", {}).get("line", blk.get("tloc", {}).get("line", 0))))
            t = blk["term"]
            if t["k"] != "assert":
                acc = set()
                _p.locals_in({k: v for (k, v) in t.items() if k != "dest"}, acc)
                if l in acc:
                    ev.append(("read", blk.get("tloc", {}).get("line", 0)))
                if t["k"] == "call" and t.get("dest") and t["dest"]["l"] == l and not t["dest"]["pr"]:
                    ev.append(("kill", 0))
            events[bb] = ev
        seen, st_, hit = set(), [lp.head], None
        while st_ and hit is None:
            x = st_.pop()
            if x in seen or x not in lp.blocks:
                continue
            seen.add(x)
            killed = False
            for (k, line) in events.get(x, []):
                if k == "read":
                    hit = line
                    break
                killed = True
                break
            if hit is None and not killed:
                st_.extend(y for (y, _) in b.succ[x] if y != lp.head)
        if hit is not None:
            out.append((l, "line %s" % hit))
    return out


def _read_outside(body, l, lp):
    """the local is looked at outside the loop (after it: its final value is a quantity over all the elements)"""
    import prep as _p
    for bb in body.reach:
        if bb in lp.blocks:
            continue
        blk = body.blocks[bb]
        for st in blk["stmts"]:
            if st["k"] == "assign":
                acc = set()
                _p.locals_in(st["rv"], acc)
                if l in acc:
                    return True
        acc = set()
        _p.locals_in({k: v for (k, v) in blk["term"].items() if k != "dest"}, acc)
        if l in acc:
            return True
    return False


def check_body(rule, crate, body, label):
    """obligations for one detector body (and nothing else): carried state / exits / roots"""
    obs = []
    loops = O.loops_of_body(body)
    for lp in loops:
        it = lp.iterable
        filewide = rooted_in_file(it, body) and not item_scoped(it)
        where = lp.site.where
        # loop-carried mutable locals: defined outside, written inside, read inside
        carried = []
        live = {l for (l, _how) in carried_state(body, lp)}
        for l in range(1, len(body.locals)):
            ds = [d for d in body.defs.get(l, []) if d[2] == []]
            if len(ds) < 2 or not body.locals[l]["user"]:
                continue
            inside = [d for d in ds if d[0] in lp.blocks]
            outside = [d for d in ds if d[0] not in lp.blocks]
            if inside and outside and (l in live or _read_outside(body, l, lp)):
                # written in the loop and initialised outside, and either looked at inside before it is re-initialised or looked at after the loop
                carried.append(l)
        if filewide:
            pos = [c[1].rsplit("::", 1)[-1] for c in T.calls_in(it) if c[1].startswith("std::iter::Iterator::")
                   and c[1].rsplit("::", 1)[-1] in ("take_while", "skip_while", "skip", "take", "step_by", "scan", "zip", "map_while", "nth", "last", "peekable")]
            if pos:
                obs.append(Ob(rule + ".exit", body.path, "%s: the loop over the whole file is cut short by %s (what is visited depends on the position of other items)" % (label, "/".join(pos)),
                              False, site=where, expected="every element of a file-wide search is visited", found=show(it)[:100],
                              example="a free function placed before a contract"))
            for l in carried:
                obs.append(Ob(rule + ".carried", body.path, "%s: mutable state `%s` survives from one top-level item to the next" % (label, body.locals[l]["name"]), False,
                              site=where, expected="no loop-carried local in a loop over the whole file",
                              found="%s : %s" % (body.locals[l]["name"], body.locals[l]["ty"]),
                              example="two contracts in one file: the verdict on the second depends on the first"))
            normal, extra = lp.exits()
            for (x, t) in extra:
                obs.append(Ob(rule + ".exit", body.path, "%s: a loop over the whole file is left early" % label, False,
                              site="%s:%d" % (body.file, body.blocks[x]["tloc"]["line"]), expected="exhaustion is the only exit of a file-wide loop"))
        if filewide:
            # objects created before the loop and mutated inside it (other than the result set and name- / identity-keyed tables)
            result = body.val_local(0)
            seen_objs = set()
            for s in S.call_sites(body):
                if s.bb not in lp.blocks or not s.args:
                    continue
                name = s.path.rsplit("::", 1)[-1]
                seq_mut = s.path.startswith(("std::vec::Vec::", "std::string::String::", "std::collections::VecDeque::", "std::slice::<impl [T]>::sort", "core::slice::<impl [T]>::")) \
                    and name in MUTATORS
                mem_mut = s.path in ("std::mem::take", "std::mem::swap", "std::mem::replace")
                if not (seq_mut or mem_mut):
                    continue
                obj = O.root_object(s.args[0])
                cb = O.creation_block(body, obj)
                if cb is None or cb in lp.blocks or obj == result or obj in seen_objs:
                    continue
                seen_objs.add(obj)
                obs.append(Ob(rule + ".carried", body.path, "%s: a buffer created before the loop over the whole file is modified inside it (%s)" % (label, name), False,
                              site=s.where, expected="per-item scratch state is created inside the loop", found=show(obj)[:60],
                              example="a contract with one state variable followed by another contract"))
        if filewide:
            # phase order: a table that the file-wide loop itself modifies (of whatever key type) is not read into the result inside that loop —
            # what is left in it after item k depends on which items come before and after
            result = body.val_local(0)
            mutated = {}
            for s in S.call_sites(body):
                if s.bb not in lp.blocks or not s.args:
                    continue
                name = s.path.rsplit("::", 1)[-1]
                if name in MUTATORS and s.path.startswith(("std::vec::Vec::", "std::collections::", "std::string::String::")):
                    obj = O.root_object(s.args[0])
                    cb = O.creation_block(body, obj)
                    if cb is not None and cb not in lp.blocks and obj != result:
                        mutated.setdefault(obj, s)
            for s in S.call_sites(body):
                if s.bb not in lp.blocks or len(s.args) < 2 or O.root_object(s.args[0]) != result:
                    continue
                if s.path.rsplit("::", 1)[-1] not in ("insert", "extend", "push", "append"):
                    continue
                for obj, ms in mutated.items():
                    if any(T.contains(a, obj) for a in s.args[1:]):
                        obs.append(Ob(rule + ".carried", body.path, "%s: findings are read out of a table inside the loop over the whole file that is still modifying it" % label, False,
                                      site=s.where, expected="a table that the file-wide loop updates is read into the result only after that loop",
                                      found="%s, modified at %s" % (show(obj)[:60], ms.where),
                                      example="interface I {} contract C { address o; constructor(){o=msg.sender;} function f(address n) external {o=n;} }"))
        if filewide:
            # a map / set created before the file-wide loop that the loop both fills and consults (a memo table, a "seen" set): what one item finds in it was
            # put there by the items before it
            result = body.val_local(0)
            filled, asked = {}, {}
            for s in S.call_sites(body):
                if s.bb not in lp.blocks or not s.args or not s.path.startswith("std::collections::"):
                    continue
                obj = O.root_object(s.args[0])
                cb = O.creation_block(body, obj)
                if cb is None or cb in lp.blocks or obj == result:
                    continue
                name = s.path.rsplit("::", 1)[-1]
                if name in ("insert", "entry", "or_insert", "or_insert_with", "or_default", "extend", "push_back", "push_front"):
                    filled.setdefault(obj, s)
                if name in ("get", "contains", "contains_key", "entry", "get_mut", "get_or_insert_with", "remove", "take"):
                    asked.setdefault(obj, s)
            # the same through a helper: an object created before the file-wide loop and lent mutably (`&mut`) to a local function inside it can carry
            # anything from one item to the next
            for s in S.call_sites(body):
                if s.bb not in lp.blocks or not s.local or not s.args:
                    continue
                for i_, op_ in enumerate(s.term["args"]):
                    ty_ = (op_.get("p") or {}).get("ty") or ""
                    if not ty_.startswith("&mut "):
                        continue
                    obj = O.root_object(s.args[i_])
                    cb = O.creation_block(body, obj)
                    if cb is None or cb in lp.blocks or obj == result:
                        continue
                    obs.append(Ob(rule + ".carried", body.path, "%s: an object created before the loop over the whole file is lent mutably to %s inside it" % (label, core.short_fn(s.path)), False,
                                  site=s.where, expected="state that one top-level item leaves behind is not read while another is judged",
                                  found="%s : %s" % (show(obj)[:50], ty_[:60]),
                                  example="two contracts that both declare a modifier `auth`, only one of which checks msg.sender"))
            for obj in filled:
                if obj in asked:
                    obs.append(Ob(rule + ".carried", body.path, "%s: a table created before the loop over the whole file is both filled and consulted inside it" % label, False,
                                  site=asked[obj].where, expected="state that one top-level item leaves behind is not read while another is judged",
                                  found="%s: filled at %s, consulted at %s" % (show(obj)[:50], filled[obj].where, asked[obj].where),
                                  example="two contracts that both declare a modifier `auth`, only one of which checks msg.sender"))
        obs.append(Ob(rule + ".loop", body.path, "%s: loop over %s is %s" % (label, show(it)[:70], "file-wide, stateless" if filewide else "inside one item"),
                      True, site=where, nontrivial=filewide))
    # file-rooted searches inside per-item loops
    for s in S.call_sites(body):
        if s.path in core.SEARCH_FNS and len(s.args) == 2:
            root = s.args[1]
            is_file = body.arg_count >= 1 and body.local_ty(1) == "solang_parser::pt::SourceUnit"
            if is_file and (root == FILE or (root[0] == "agg" and root[3] and root[3][0] == ("param", 1))) and body.loops_of(s.bb):
                obs.append(Ob(rule + ".root", body.path, "%s: a search of the whole file inside a per-item loop" % label, False, site=s.where,
                              expected="searches inside a loop over items are rooted at the item", found=show(s.result)[:100],
                              example="contract A { uint x; uint y = (x = 1); } contract B { constructor(){} }"))
    return obs
