"""C16 — only Solidity sources are analysed; other files are inert (DESIGN 5/C16)."""
from runner import Ob
import sites as S
import terms as T
from core import show
from rules import dirwalk

META = {
    "level": "other",
    "rule": "per analyze_dir sibling: the guard-DNF of every file-content read, the position of every panic-capable "
            "site relative to the filter, and sibling agreement; non-trivial = obligations that compare a guard or a receiver",
    "explanation": "R16.filter: the guard (DNF over switch edges of the MIR CFG, atoms rendered over access paths) of the "
                   "fs::read_to_string call in each of the three analyze_dir siblings equals "
                   "!is_dir(p) && ends_with(name, \".sol\") && !ends_with(lower(name), \".t.sol\") with name = final component of the entry path p; "
                   "R16.before: every content read and every per-file analysis call is guarded by the filter; "
                   "R16.nofail: unwrap/expect sites not guarded by the filter have as receiver only the directory listing, the listing entry, "
                   "the entry's final component or its UTF-8 conversion; R16.siblings: the three summaries coincide.",
    "assumptions": ["file names are valid Unicode (property quantifier)", "OS directory listing behaviour is not modelled"],
    "floors": {"R16.filter": 3, "R16.before": 3, "R16.nofail": 9, "R16.depth": 1},
}

PANICKY = ("::unwrap", "::expect", "::unwrap_unchecked")


def run(ctx, crate):
    obs = []
    # "at every directory depth": every sub-directory is entered, with nothing but `is a directory` deciding it (C03's obligations on the recursion)
    from rules import depend
    obs.append(depend.inherited(ctx, crate, "R16.depth", "analyze_dir x3", "every nested directory is entered, whatever its name (C03's obligations on the recursion and the loops)",
                                "C03", lambda o: o.rule in ("R03.recurse", "R03.loops"), example="contracts/periphery/contracts/Helper.sol analysed with --path contracts"))
    summaries = {}
    for w in dirwalk.walks(crate):
        if not w.ok:
            obs.append(Ob("R16.filter", w.path, "anchor function missing", False))
            continue
        b = w.body
        if len(w.reads) != 1 or len(w.read_dir) != 1:
            obs.append(Ob("R16.filter", w.path, "expected one read_dir and one content read", False,
                          found="read_dir=%d reads=%d" % (len(w.read_dir), len(w.reads))))
            continue
        rd = w.read_dir[0]
        read = w.reads[0]
        p = read.args[0]  # the path that is read
        # p must be DirEntry::path(entry) of an element of the listing
        ok_p = T.is_call(p, "DirEntry::path") and T.contains(p, ("elem", T.strip_unwrap(rd.result)) ) or \
            (T.is_call(p, "DirEntry::path") and any(x[0] == "elem" and T.contains(x, rd.result) for x in T.subterms(p)))
        names = {p: "p"}
        g = S.block_guard(b, read.bb, names)
        # name term: any term n with Path::file_name(p) inside, used in ends_with
        expect = sorted(["!Path::is_dir(p)", "str::ends_with(NAME, \".sol\")", "!str::ends_with(str::to_lowercase(NAME), \".t.sol\")"])
        found = None
        ok = False
        if g is not None and len(g) == 1:
            conj = g[0]
            # discover NAME: the first argument of the ends_with(.., ".sol") atom
            name_t = None
            for s in w.sites:
                if s.path == "core::str::<impl str>::ends_with" and len(s.args) == 2 and s.args[1] == ("const", "str", ".sol"):
                    name_t = s.args[0]
            if name_t is not None and T.calls_in(name_t, "Path::file_name") and T.calls_in(name_t, "Path::file_name")[0][2][0] == p \
                    and not T.calls_in(name_t, "to_lowercase"):
                names[name_t] = "NAME"
                g2 = S.block_guard(b, read.bb, names)
                found = g2[0]
                ok = found == expect
            else:
                found = conj
        else:
            found = g
        obs.append(Ob("R16.filter", w.path, "guard of the content read", ok and bool(ok_p), site=read.where,
                      expected=" && ".join(expect) + "  (NAME = to_str(file_name(p)), p = path of a listing entry)",
                      found=(" && ".join(found) if isinstance(found, list) and found and isinstance(found[0], str) else S.guard_str(found)),
                      example="a directory containing Vault.t.solution.sol (not a test file; must be analysed)"))
        summaries[w.path] = found
        # R16.before: analysis calls use the content read and sit under the same guard
        filt = set(g[0]) if g and len(g) == 1 else set()
        for a in w.analyze:
            ga = S.block_guard(b, a.bb, {p: "p"})
            under = ga is not None and all(filt <= set(c) for c in ga)
            uses = T.contains(a.args[0], read.result) if a.args else False
            obs.append(Ob("R16.before", w.path, "per-file analysis under the filter", under and uses, site=a.where,
                          expected="analysis call guarded by the filter and fed by the guarded read",
                          found="under_filter=%s uses_read=%s" % (under, uses)))
        # any other site that touches the file's content
        for s in w.sites:
            if s is read or s in w.analyze:
                continue
            if s.path.startswith("std::fs::") and s.path not in ("std::fs::read_dir", "std::fs::DirEntry::path"):
                gs = S.block_guard(b, s.bb, {p: "p"})
                under = gs is not None and all(filt <= set(c) for c in gs)
                obs.append(Ob("R16.before", w.path, "fs access %s under the filter" % s.path, under, site=s.where))
        # R16.nofail
        allowed_recv = 0
        for s in w.sites:
            if not s.path.endswith(PANICKY):
                continue
            gs = S.block_guard(b, s.bb, {p: "p"})
            under = gs is not None and filt and all(filt <= set(c) for c in gs)
            if under:
                continue
            recv = s.args[0] if s.args else ("unknown", "")
            r0 = recv
            kind = None
            if T.is_call(r0, "fs::read_dir"):
                kind = "directory listing"
            elif r0[0] == "elem" and T.contains(r0, rd.result):
                kind = "listing entry"
            elif T.is_call(r0, "Path::file_name") or T.is_call(r0, "OsStr::to_str") or T.is_call(r0, "Path::to_str"):
                inner = [x for x in T.subterms(r0) if T.is_call(x, "DirEntry::path")]
                if inner:
                    kind = "entry name / UTF-8 conversion"
            obs.append(Ob("R16.nofail", w.path, "unguarded %s on %s" % (s.path.rsplit("::", 1)[-1], kind or show(recv, {p: "p"})), kind is not None,
                          site=s.where, expected="before the filter only listing / entry-name conversions may fail",
                          found=show(recv, {p: "p"})))
    import order as O
    for w in dirwalk.walks(crate):
        if not w.ok:
            continue
        early = []
        whole = False
        for lp in O.loops_of_body(w.body):
            if "ReadDir" in lp.self_ty:
                normal, extra = lp.exits()
                early += [w.body.blocks[x]["tloc"]["line"] for (x, t) in extra]
                it = lp.iterable
                if it[0] == "enumerate":
                    it = it[1]
                whole = bool(w.read_dir) and T.strip_unwrap(it) == w.read_dir[0].result and lp.self_ty in ("std::iter::Enumerate<std::fs::ReadDir>", "std::fs::ReadDir")
        obs.append(Ob("R16.loops", w.path, "every entry of the directory is considered (the whole listing, to exhaustion)", not early and whole,
                      expected="for entry in read_dir(dir) (optionally enumerated), no skip / take / filter, no early exit",
                      found=("early exit at line(s) %s" % sorted(set(early))) if early else ("whole listing" if whole else "the listing is adapted before iteration")))
    vals = list(summaries.values())
    if len(vals) == 3:
        same = all(v == vals[0] for v in vals)
        obs.append(Ob("R16.siblings", "analyze_dir x3", "identical filter in the three categories", same,
                      expected="three identical guards", found=[" && ".join(v) if isinstance(v, list) else str(v) for v in vals]))
    return obs
