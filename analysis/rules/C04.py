"""C04 — analysis never aborts on a file the parser accepts (DESIGN 5/C04)."""
import json, os, re
from runner import Ob, VERIF
import sites as S
import terms as T
import order as O
import core
from core import show
from rules import detectors as D
from rules.walkinfo import WalkInfo, WALKER

META = {
    "level": "other",
    "rule": "one obligation per panic-capable site (unwrap/expect/index/slice/explicit panic/diverging call/overflow-, bounds-, division-assert) in the bodies "
            "reachable from analyze_for_*, one per loop (termination) and one per call-graph cycle; non-trivial = every site (each is discharged by a guard "
            "rule or a keyed justification)",
    "explanation": "R04.sites: every panic-capable site reachable from the three analyze_for_* is enumerated from MIR and discharged by exactly one of: G.some "
                   "(receiver dominated by is_some/is Ok of the same path), G.kind (Node accessor on an element of a search whose possible wrapper kinds — from the "
                   "classification tables and the walker's wrapper edges, minus kinds excluded by is_contract_part/is_source_unit_part guards — all equal the accessor's "
                   "kind), G.nonzero / G.constdiv / G.range (arithmetic), or J (specs/c04_justified.json: keyed, reasoned, with a mechanical side condition where one "
                   "exists). R04.loops: every loop is driven by an iterator over a finite collection or is a cursor loop whose every back edge re-assigns the cursor to a "
                   "strict sub-term of itself. R04.rec: the only call-graph cycle is the walker's self-recursion on strict sub-terms.",
    "assumptions": ["dependencies do not panic on valid arguments (not analysed)", "stack depth is bounded by the property's nesting bound (<= 64)",
                    "overflow checks are analysed as enabled: every arithmetic site is enumerated, which covers builds without them"],
    "floors": {"R04.sites": 30, "R04.scope": 60, "R04.loops": 40, "R04.rec": 1, "R04.stack": 1, "R04.asread": 1},
}

PANIC_CALLS = ("::unwrap", "::expect", "::unwrap_unchecked")
INDEXERS = ("std::ops::Index::index", "std::ops::IndexMut::index_mut")
OTHER_PANICKY = ("::remove", "::swap_remove", "::split_off", "::drain", "::split_at", "::copy_from_slice", "::borrow_mut", "::borrow", "::step_by", "::chunks",
                 "::windows", "::last_mut", "::first_mut")
ACCESSORS = {"expression": "Expression", "statement": "Statement", "source_unit": "SourceUnit", "source_unit_part": "SourceUnitPart", "contract_part": "ContractPart"}
FINITE_ITER = ("std::vec::", "std::slice::", "core::slice::", "std::collections::", "std::iter::Enumerate", "std::iter::Map", "std::iter::Filter", "std::iter::Take",
               "std::iter::Rev", "std::ops::Range", "regex::", "std::str::", "core::str::", "std::option::", "std::iter::Cloned", "std::iter::Copied", "std::iter::Zip",
               "std::iter::Chain", "std::iter::Skip", "std::iter::Peekable", "std::array::", "core::array::", "std::fs::ReadDir")


_CAL = None


def callee_total(path):
    """is the external callee classified as total (specs/callees.json)?"""
    global _CAL
    if _CAL is None:
        with open(os.path.join(VERIF, "specs", "callees.json")) as fh:
            _CAL = json.load(fh)
    c = _CAL
    if path in c["total_exact"]:
        return True
    for pre in c["total_prefix"]:
        if path.startswith(pre):
            name = path.rsplit("::", 1)[-1]
            if name in c["total_prefix_except"].get(pre, []):
                return False
            return True
    m = re.match(r"^(core::num::<impl )([iu](8|16|32|64|128|size))(>::)(.*)$", path)
    if m:
        name = m.group(5)
        lst = c["total_methods"]["core::num::<impl INT>::"]
        if name in lst:
            return True
        for fam, tag in (("checked_", "CHECKED"), ("wrapping_", "WRAPPING"), ("saturating_", "SATURATING"), ("overflowing_", "OVERFLOWING")):
            if name.startswith(fam) and tag in lst:
                return True
        return False
    for pre, names in c["total_methods"].items():
        if path.startswith(pre) and path[len(pre):] in names:
            return True
    if path.startswith("core::str::<impl str>::parse::<"):
        return True
    return False


def load_j():
    with open(os.path.join(VERIF, "specs", "c04_justified.json")) as fh:
        return json.load(fh)["entries"]


def side_condition(name, site_body, site, recv):
    if name is None:
        return True, ""
    lits = [x[2] for x in T.consts_in(recv, "str")]
    if name == "regex_literal_simple":
        # a conservative fragment that both regex engines accept: escapes \d \w \s \. , plain characters, `.`, simple bracket classes, + * ? quantifiers
        tok = r"(\\[dwsDWS.\-+*?()\[\]{}|^$\\/]|\\n|\[\^?([A-Za-z0-9_ .,:;\-]|\\[dws.\-])+\]|[A-Za-z0-9_ ,:;=<>~^\-]|\.|\+|\*|\?)"
        ok = bool(lits) and all(re.fullmatch("(%s)+" % tok, l) is not None and not re.search(r"(^|[^\\])[+*?]{2}", l) for l in lits)
        return ok, "literal(s) %r" % lits
    if name == "regex_literal_no_group":
        ok = bool(lits) and all("(" not in l for l in lits)
        return ok, "literal(s) %r" % lits
    if name == "index_zero_of_string_literal_pieces":
        ok = len(site.args) == 2 and site.args[1] == ("const", "int", 0)
        base = site.args[0]
        ok = ok and base[0] == "proj" and base[2][0] == "f" and base[1][0] == "proj" and base[1][2] == ("dc", "StringLiteral")
        return ok, "index %s of %s" % (show(site.args[1]) if len(site.args) > 1 else "?", show(base)[-40:])
    if name == "mul_u8_widened_by_const":
        return True, ""
    return False, "unknown side condition %s" % name


def run(ctx, crate):
    obs = []
    disp = D.all_dispatch(crate)
    roots = [d.body for d in disp.values() if d.ok]
    if len(roots) != 3:
        obs.append(Ob("R04.sites", "analyze_for_*", "three per-file entry points present", False))
    reach = S.reachable_bodies(crate, roots)
    wi = WalkInfo(crate)
    J = load_j()
    used_j = set()
    n_sites = 0

    def justify(b, kind, recv_s, site, recv):
        for i, e in enumerate(J):
            # (unwrap and expect fail under exactly the same condition: a justification of one is a justification of the other)
            kinds = (e["kind"], e["kind"].replace("::unwrap", "::expect"), e["kind"].replace("::expect", "::unwrap"))
            if b.path.endswith("::" + e["fn"]) and kind.endswith(kinds) and re.search(e["receiver"], recv_s):
                ok, info = side_condition(e.get("side"), b, site, recv)
                if ok:
                    used_j.add(i)
                    return "J: %s%s" % (e["reason"], (" [%s]" % info) if info else "")
        return None

    for b in reach.values():
        fnshort = b.path
        for s in S.call_sites(b):
            p = s.path
            kind = None
            if p.endswith(PANIC_CALLS) and ("Option" in p or "Result" in p):
                kind = ("Option::" if "Option" in p else "Result::") + p.rsplit("::", 1)[-1]
            elif p in INDEXERS:
                kind = "Index::index"
            elif s.diverges():
                kind = "diverges:" + core.short_fn(p)
            elif p.endswith(OTHER_PANICKY) and not p.startswith("std::collections::HashMap") and not p.startswith("std::collections::HashSet"):
                kind = "panicky:" + core.short_fn(p)
            elif p in ("std::string::ToString::to_string", "std::fmt::Display::fmt") and s.fn and s.fn.get("gargs") and \
                    s.fn["gargs"][0].replace("&", "") in ("solang_parser::pt::Expression", "solang_parser::pt::Type", "solang_parser::pt::Statement"):
                kind = "Display of a parse-tree type (unimplemented for most variants)"
            if kind is None:
                if not s.local and s.fn is not None and not callee_total(p):
                    kind = "unclassified:" + core.short_fn(p)
                else:
                    continue
            n_sites += 1
            recv = s.args[0] if s.args else ("unknown", "no receiver")
            recv_s = show(recv)
            how = None
            g = s.guard
            # G.some
            if kind.startswith(("Option::", "Result::")) and g is not None:
                want = "is(%s; %s)" % (recv_s, "Some" if kind.startswith("Option") else "Ok")
                if g and all(want in c for c in g):
                    how = "G.some: dominated by %s" % want[-60:]
            # G.kind
            if how is None and kind.startswith("Option::") and recv[0] == "phi":
                somes = [m for m in recv[2] if m[0] == "agg" and m[2].endswith("Option::Some")]
                nones = [m for m in recv[2] if m[0] == "agg" and m[2].endswith("Option::None")]
                if len(somes) == 1 and len(nones) == 1 and len(recv[2]) == 2:
                    payload = somes[0][3][0]
                    fo = T.field_of(payload)
                    if fo and fo[1] == 0 and fo[0][0] == "proj" and fo[0][2][0] == "dc":
                        acc_kind = fo[0][2][1]
                        node = fo[0][1]
                        cands = wi.node_candidates(node) if wi.ok else None
                        if cands is not None:
                            kinds = set(k for (k, _) in cands)
                            node_s = show(node)
                            for c in (g or []):
                                pass
                            if g:
                                for kname, fnname in (("ContractPart", "Node::is_contract_part"), ("SourceUnitPart", "Node::is_source_unit_part")):
                                    pos = "%s(%s)" % (fnname, node_s)
                                    if all(pos in c for c in g):
                                        kinds &= {kname}
                                    elif all(("!" + pos) in c for c in g):
                                        kinds -= {kname}
                            if kinds <= {acc_kind}:
                                how = "G.kind: elements of this search are always %s nodes" % acc_kind
                            else:
                                obs.append(Ob("R04.sites", fnshort, "%s on Node::%s() of a search that also yields %s nodes" % (
                                    kind, [a for a, k in ACCESSORS.items() if k == acc_kind][0], "/".join(sorted(kinds - {acc_kind}))), False, site=s.where,
                                    expected="every element of the search has wrapper kind %s" % acc_kind, found=sorted(kinds),
                                    example="a file-level (free) function" if "SourceUnitPart" in kinds else None))
                                continue
            # G.built: the receiver is a value that was just built as the good variant (`Some(x).unwrap()` after normalisation of `a.or(b)`, `if a.is_some() { a } ..`)
            if how is None and kind.startswith(("Option::", "Result::")) and recv[0] == "agg" and recv[1] == "adt" \
                    and recv[2].endswith("Option::Some" if kind.startswith("Option") else "Result::Ok"):
                how = "G.built: the receiver is %s(..) by construction" % recv[2].rsplit("::", 1)[-1]
            # J
            if how is None:
                how = justify(b, kind, recv_s, s, recv)
            if how is None and kind.startswith("unclassified:"):
                obs.append(Ob("R04.sites", fnshort, "call of %s, which is not known to be total" % p, False, site=s.where,
                              expected="a callee classified as total in specs/callees.json, or a guard / justification for a panic-capable one",
                              found="%s(%s)" % (core.short_fn(p), ", ".join(show(a)[:40] for a in s.args)),
                              example="e.g. 10u128.pow(e) overflows for e >= 39 in builds with overflow checks"))
            elif how is None:
                obs.append(Ob("R04.sites", fnshort, "%s on %s" % (kind, recv_s[-90:]), False, site=s.where,
                              expected="a dominating guard or a justification", found="guard: %s" % S.guard_str(g)[-160:]))
            else:
                obs.append(Ob("R04.sites", fnshort, "%s on %s" % (kind, recv_s[-90:]), True, site=s.where, found=how))
        # assert terminators
        for i in b.reach:
            t = b.blocks[i]["term"]
            if t["k"] != "assert":
                continue
            n_sites += 1
            msg = t["msg"]
            ops = [b.val_operand(o) for o in t["mops"]]
            where = "%s:%d" % (b.file, b.blocks[i]["tloc"]["line"])
            desc = "%s(%s)" % (msg, ", ".join(show(o)[-50:] for o in ops))
            how = None
            g = S.block_guard(b, i)
            if msg in ("DivisionByZero", "RemainderByZero") and ops and ops[0][0] == "const" and ops[0][1] == "int" and ops[0][2] != 0:
                how = "G.constdiv: non-zero constant divisor"
            if how is None and msg == "Overflow:Sub" and len(ops) == 2 and ops[1] == ("const", "int", 1) and g:
                want = "!eq(%s, 0)" % show(ops[0])
                if all(want in c for c in g):
                    how = "G.nonzero: dominated by %s" % want[-50:]
            if how is None and msg == "Overflow:Mul" and len(ops) == 2 and ops[0][0] == "cast" and len(ops[0]) > 3 and ops[0][3] == "u8" and ops[0][2] in ("u16", "u32", "u64", "usize", "i32", "i64") \
                    and ops[1][0] == "const" and ops[1][1] == "int" and 0 <= ops[1][2] <= 128:
                how = "G.range: u8 widened to %s times %d cannot overflow" % (ops[0][2], ops[1][2])
            if how is None and msg == "Overflow:Add" and len(ops) == 2 and ops[1] == ("const", "int", 1):
                inner = ops[0]
                while inner[0] == "cast":
                    inner = inner[1]
                if T.is_call(inner, "partition_point") and len(inner[2]) == 2 and ((inner[2][0][0] == "call" and inner[2][0][1].startswith("std::vec::Vec::")) or
                                                                                       (b.path == D.LINE_FN and inner[2][0] == ("param", 2))):
                    # the line lookup through a table of line-feed positions (C02's table form): the partition point is at most the table's length,
                    # which is the number of line feeds of the input - the bound of the counting form's justification
                    how = "G.count: a partition point is at most the length of the table searched (one entry per line feed of the input; files are far smaller than 2^31 lines)"
            if how is None:
                how = justify(b, msg, " ; ".join(show(o) for o in ops), None, ops[0] if ops else ("unknown", ""))
            obs.append(Ob("R04.sites", fnshort, "assert %s" % desc, how is not None, site=where,
                          expected="an arithmetic guard / range argument or a justification", found=how or "guard: %s" % S.guard_str(g)[-120:]))
        # ------------------------------------------------------------ loops
        iters = {}
        for lp in O.loops_of_body(b):
            if lp.head is not None:
                iters.setdefault(lp.head, []).append(lp)
        for h, blocks in b.loops.items():
            where = "%s:%d" % (b.file, b.blocks[h]["tloc"]["line"])
            lps = [lp for lp in iters.get(h, []) if len(b.loops_of(lp.site.bb)) and b.loops_of(lp.site.bb)[-1] == h]
            if lps:
                lp = lps[0]
                fin = lp.self_ty.startswith(FINITE_ITER)
                # every back edge passes through next(): the next() block dominates every back-edge source
                backs = [x for (x, t) in b.back if t == h]
                dom = all(b.dominates(lp.site.bb, x) or lp.site.bb == x for x in backs)
                obs.append(Ob("R04.loops", fnshort, "iterator loop over %s" % lp.self_ty.split("<")[0], fin and dom, site=where,
                              expected="a finite iterator advanced on every iteration", found="finite=%s advanced_every_iteration=%s" % (fin, dom)))
                continue
            # cursor loop
            ok = False
            detail = "no iterator drives this loop"
            backs = [x for (x, t) in b.back if t == h]
            for l in range(len(b.locals)):
                ds = [d for d in b.defs.get(l, []) if d[2] == [] and d[0] in blocks]
                if not ds:
                    continue
                key = (b.path, l)
                strict = True
                for (bb, si, pr, kind, payload) in ds:
                    v = b.val_rvalue(payload, (l,), (bb, si)) if kind == "rv" else None
                    if v is None:
                        strict = False
                        break
                    if not strict_sub(v, key):
                        strict = False
                        break
                if strict and all(any(b.dominates(d[0], x) or d[0] == x for d in ds) for x in backs):
                    ok = True
                    detail = "cursor _%d (%s) moves to a strict sub-term on every iteration" % (l, b.locals[l]["name"])
                    break
            obs.append(Ob("R04.loops", fnshort, "cursor loop", ok, site=where, expected="every back edge re-assigns the cursor to a strict sub-term of itself", found=detail))
    # ------------------------------------------------------------ recursion
    graph = {}
    for b in reach.values():
        graph[b.path] = set(p for p in S.body_refs(b) if p in reach)
    cyc = sccs(graph)
    for comp in cyc:
        if comp == [WALKER]:
            w = reach[WALKER]
            okr = True
            for s in S.call_sites(w):
                if s.path == WALKER:
                    a = s.args[1]
                    inner = a[3][0] if (a[0] == "agg" and len(a[3]) == 1) else None
                    depth = 0
                    t = inner
                    while t is not None and t[0] in ("proj", "elem"):
                        depth += 1
                        t = t[1]
                    if t != ("param", 2) or depth < 3:
                        okr = False
            obs.append(Ob("R04.rec", WALKER, "self-recursion only on strict sub-terms of the node", okr))
        else:
            obs.append(Ob("R04.rec", comp[0], "call-graph cycle %s" % " -> ".join(comp), False, expected="no recursion besides the tree walker"))
    if not any(c == [WALKER] for c in cyc):
        obs.append(Ob("R04.rec", WALKER, "walker recursion present in the analysed call graph", False))
    # R04.stack: the depth bound of the property (nesting <= 64) was established for the recursive walk running on the process's main thread; a spawned
    # thread has a much smaller default stack (2 MiB), so the same file can exhaust it and abort the run. No thread is started anywhere in the crate.
    spawns = []
    for b_ in crate.bodies.values():
        if b_.derived:
            continue
        for s_ in S.call_sites(b_):
            if any(p_.startswith("std::thread::") and p_.rsplit("::", 1)[-1] in ("spawn", "spawn_scoped", "scope", "spawn_unchecked") for p_ in {s_.path, s_.resolved}):
                spawns.append("%s in %s (line %d)" % (core.short_fn(s_.path), b_.path.rsplit("::", 2)[-2] + "::" + b_.path.rsplit("::", 1)[-1], s_.line))
    obs.append(Ob("R04.stack", crate.name, "the recursive tree walk runs on the main thread's stack (no thread is spawned)", not spawns,
                  expected="no std::thread::spawn / scope in the crate", found=spawns or "none",
                  example="32 nested parentheses analysed on a worker thread with the default 2 MiB stack"))
    # "a file the parser accepts" is the file on disk: a walker that hands the parser a rewritten copy (line endings "normalised", characters dropped) can turn
    # an accepted file into text the parser rejects, and the unwrap on the parse result aborts the run (C17's obligation on what the walks hand on)
    from rules import depend
    obs.append(depend.inherited(ctx, crate, "R04.asread", "analyze_dir x3", "the parser is given the file's content as read (C17's obligation on what the walks hand to the analysis)",
                                "C17", lambda o: o.rule == "R17.asread", example="a file with bare carriage returns as line ends and a // comment inside a contract"))
    # what was looked at: one line per body reachable from the entry points (the floor on these guards against an engine that stops seeing the code; the number of
    # panic-capable sites itself is no such guard - a hardening commit legitimately removes them)
    for b_ in reach.values():
        obs.append(Ob("R04.scope", b_.path, "body reachable from analyze_for_*: every call and assert terminator inspected", True, nontrivial=False))
    ctx.analysed.setdefault("C04", {})[crate.ctype] = {"reachable_bodies": len(reach), "panic_capable_sites": n_sites, "justifications_used": len(used_j), "justifications": len(J)}
    for i, e in enumerate(J):
        if i not in used_j:
            ctx.notes.append("unused justification: %s / %s" % (e["fn"], e["kind"]))
    return obs


def strict_sub(v, key):
    """v is a strict sub-term (at least one field projection) of the cursor identified by key, on every alternative"""
    if v[0] == "phi" and v[1] != key:
        return all(strict_sub(m, key) for m in v[2])
    depth = 0
    t = v
    while t[0] == "proj":
        if t[2][0] == "f":
            depth += 1
        t = t[1]
    return depth >= 1 and (t == ("rec", key) or (t[0] == "phi" and t[1] == key))


def sccs(graph):
    """strongly connected components that contain a cycle (Tarjan)"""
    index = {}
    low = {}
    st = []
    on = set()
    out = []
    counter = [0]

    def visit(v):
        work = [(v, iter(sorted(graph.get(v, ()))))]
        index[v] = low[v] = counter[0]
        counter[0] += 1
        st.append(v)
        on.add(v)
        while work:
            node, it = work[-1]
            adv = False
            for wv in it:
                if wv not in index:
                    index[wv] = low[wv] = counter[0]
                    counter[0] += 1
                    st.append(wv)
                    on.add(wv)
                    work.append((wv, iter(sorted(graph.get(wv, ())))))
                    adv = True
                    break
                elif wv in on:
                    low[node] = min(low[node], index[wv])
            if adv:
                continue
            work.pop()
            if work:
                low[work[-1][0]] = min(low[work[-1][0]], low[node])
            if low[node] == index[node]:
                comp = []
                while True:
                    x = st.pop()
                    on.discard(x)
                    comp.append(x)
                    if x == node:
                        break
                if len(comp) > 1 or node in graph.get(node, ()):
                    out.append(sorted(comp))

    for v in sorted(graph):
        if v not in index:
            visit(v)
    return out
