"""increment_decrement (DESIGN 5/C05): ALL = the four inc/dec kinds anywhere in the file; EXEMPT = prefix forms below the statements of
unchecked blocks; reported = ALL minus EXEMPT."""
from runner import Ob
import sites as S
import terms as T
import boolalg as B
import summary
from core import show

ALL4 = ["PostDecrement", "PostIncrement", "PreDecrement", "PreIncrement"]
PRE2 = ["PreDecrement", "PreIncrement"]


def helper_set(crate, sm, call):
    """for a call term to a local helper returning HashSet<Loc>: {(path string relative to the search element, formula)} and the search string"""
    fb = crate.bodies.get(call[1])
    if fb is None:
        return None
    reps = sm.reports(fb)
    env = {i + 1: a for i, a in enumerate(call[2])}
    import core
    out = []
    for (t, f, s) in reps:
        out.append((show(core.subst_params(t, env)), B.show(sm.render(sm.subst(f, env)))))
    return sorted(out)


def check(crate, sm, body):
    obs = []
    fn = body.path
    R = body.val_local(0)
    ss = S.call_sites(body)
    ins = [s for s in ss if s.args and s.args[0] == R and s.path.endswith("::insert")]
    if len(ins) != 1:
        return [Ob("R05.incdec", fn, "one insert into the result", False, found=len(ins))]
    i = ins[0]
    x = i.args[1]
    ok_all = x[0] == "elem" and x[1][0] == "call"
    all_call = x[1] if ok_all else None
    hs = helper_set(crate, sm, all_call) if ok_all else None
    root_ok = ok_all and all_call[2] and show(all_call[2][0]) == "Node::SourceUnit(arg1)"
    want = []
    srch = "search{%s}(Node::SourceUnit(arg1))[*]↓Expression.0" % "|".join(sorted(ALL4))
    for k in ALL4:
        want.append(("%s↓%s.0" % (srch, k), "is(%s; %s)" % (srch, k)))
    obs.append(Ob("R05.incdec", fn, "candidates = every x++ x-- ++x --x of the whole file, reported at the expression itself", bool(root_ok and hs == sorted(want)),
                  expected=sorted(want), found=hs))
    # guard of the insert: not in EXEMPT
    g = i.guard
    exempt = None
    ok_g = False
    if g and len(g) == 1 and len(g[0]) == 1 and g[0][0].startswith("!HashSet::contains("):
        for s in ss:
            if s.path.endswith("HashSet::<T, S>::contains") or s.path.endswith("::contains"):
                if len(s.args) == 2 and s.args[1] == x:
                    exempt = s.args[0]
                    ok_g = True
    obs.append(Ob("R05.incdec", fn, "reported iff not in the exemption set", ok_g, expected="insert(loc) guarded exactly by !exempt.contains(loc)", found=S.guard_str(g)))
    if exempt is None:
        obs.append(Ob("R05.incdec", fn, "exemption set found", False))
        return obs
    # EXEMPT is filled only by extend(helper(statement of an unchecked block))
    fills = [s for s in ss if s.args and s.args[0] == exempt and not s.path.endswith(("::contains", "::new"))]
    ok_f = len(fills) == 1 and fills[0].path.endswith("::extend")
    src = fills[0].args[1] if ok_f else None
    if len(fills) == 1 and fills[0].path.endswith("::insert") and len(fills[0].args) == 2 and fills[0].args[1][0] == "elem":
        # the same written element by element: `for loc in helper(statement) { exempt.insert(loc) }`, the loop running to exhaustion, every element inserted
        import order as O
        it = fills[0].args[1][1]
        lps = [lp for lp in O.loops_of_body(body) if (lp.iterable == it or (lp.iterable[0] == "iter" and lp.iterable[1] == it)) and fills[0].bb in lp.blocks]
        if len(lps) == 1 and not lps[0].exits()[1] and S.block_guard(body, fills[0].bb) == S.block_guard(body, lps[0].head):
            ok_f, src = True, (it[1] if it[0] == "iter" else it)
    obs.append(Ob("R05.incdec", fn, "the exemption set has a single source", ok_f, found=[s.path for s in fills]))
    if not ok_f:
        return obs
    f = fills[0]
    blocks = "search{Block}(Node::SourceUnit(arg1))[*]↓Statement.0"
    stmt = "%s↓Block.statements[*]" % blocks
    ok_src = src[0] == "call" and src[2] and show(src[2][0]) == "Node::Statement(%s)" % stmt
    hs2 = helper_set(crate, sm, src) if src[0] == "call" else None
    s2 = "search{%s}(Node::Statement(%s))[*]↓Expression.0" % ("|".join(PRE2), stmt)
    want2 = sorted(("%s↓%s.0" % (s2, k), "is(%s; %s)" % (s2, k)) for k in PRE2)
    obs.append(Ob("R05.incdec", fn, "exempt = prefix forms (only) anywhere below a statement of a block", bool(ok_src and hs2 == want2),
                  expected=want2, found=hs2 if hs2 is not None else show(src)[:120]))
    gf = f.guard
    want_g = [sorted(["is(%s; Block)" % blocks, "%s↓Block.unchecked" % blocks])]
    # `node.statement()?` instead of `.unwrap()`: what a search for blocks returns are statements (R01.tables: only a statement has the kind Block), so the
    # test whether it is one always succeeds
    if gf and len(gf) == 1:
        gf = [sorted(a for a in gf[0] if a != "is(maybe(%s); Some)" % blocks)]
    obs.append(Ob("R05.incdec", fn, "only statements of unchecked blocks feed the exemption set", gf == want_g, expected=S.guard_str(want_g), found=S.guard_str(gf)))
    # the exemption set is complete before it is consulted
    obs.append(Ob("R05.incdec", fn, "the exemption set is complete before candidates are filtered", body.dominates(f.bb, i.bb) is False and not body.reaches(i.bb, f.bb)
                  and body.reaches(f.bb, i.bb), expected="all fills precede the filtering loop"))
    return obs
