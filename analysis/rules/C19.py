"""C19 — findings compose over the top-level items of a file (DESIGN 5/C19)."""
from runner import Ob
import sites as S
import terms as T
import core
import summary
import boolalg as B
from core import show
from rules import detectors as D
from rules import isolation

META = {
    "level": "other",
    "rule": "per detector (all but the two SafeMath ones) and per helper it reaches: one obligation per loop (file-wide loops must be stateless and run to "
            "exhaustion), one per file-rooted search inside a per-item loop, and per reported location one obligation that every witness its condition quantifies over "
            "lies in the same top-level item (or is a pragma / a table keyed by state-variable name / an identity-keyed location set); non-trivial = file-wide loops "
            "and conditions that mention a second node",
    "explanation": "R19.carried / R19.exit / R19.root: no mutable local carried across a loop over the whole file, no early exit from such a loop, no whole-file search "
                   "inside a per-item loop. R19.scope: in the extracted condition of every reported location, every bound witness (a second node the verdict depends on, "
                   "e.g. the function that precedes a constructor, the attribute that makes a function payable) is reached from the reported node's own top-level item; "
                   "the only file-wide inputs are the version helper (pragmas are kept by the property), tables keyed by state-variable name (excluded by the property's "
                   "quantifier) and sets of locations compared by identity. R19.version: the version helper is admissible as a file-wide input because it depends on the pragma directives "
                   "alone — C09's obligations on its search (every pragma directive is a candidate wherever it stands, the search ends early only at a directive named "
                   "solidity) are inherited.",
    "assumptions": ["items do not mention each other's state-variable names (property quantifier)", "C01: a search rooted at an item stays inside it"],
    "floors": {"R19.scope": 25, "R19.iso.loop": 40, "R19.version": 1, "R19.lines": 1, "R19.iso.globals": 1},
}

EXCLUDED = ("SafeMathPre080", "SafeMathPost080")
VERSION_FN = "analyzer::utils::get_solidity_version_from_source_unit"
NAME_TABLES = ("analyzer::utils::get_32_byte_storage_variables",
               "analyzer::optimizations::immutable_variables::get_storage_variables_assigned_in_constructor",
               "analyzer::utils::get_constant_variables", "analyzer::utils::get_immutable_variables")
FILE = ("agg", "adt", "analyzer::ast::Node::SourceUnit", (("param", 1),))


def file_rooted_elems(t):
    """element variables whose collection is a search rooted directly at the file"""
    out = []
    for x in T.subterms(t):
        if x[0] == "elem":
            c = x[1]
            if c[0] == "iter":
                c = c[1]
            if c[0] == "call" and c[1] in core.SEARCH_FNS and len(c[2]) == 2 and c[2][1] == FILE:
                out.append(x)
    return out


def whole_file_aggregates(t):
    """uses of a file-rooted search result other than as the collection an element variable ranges over: its length, a collect() into an
    Option / Result, a fold .. — anything computed from all items at once"""
    out = []

    def walk(x, direct):
        if not isinstance(x, tuple) or not x:
            return
        if x[0] in ("const", "obj", "rec", "unknown", "bottom", "param"):
            return
        if x[0] == "call" and x[1] in core.SEARCH_FNS and len(x[2]) == 2 and (x[2][1] == FILE or (x[2][1][0] == "agg" and x[2][1][3] and x[2][1][3][0] == ("param", 1))):
            if not direct:
                out.append(x)
            return
        if x[0] in ("elem", "idx"):
            walk(x[1], True)
            return
        if x[0] in ("iter", "enumerate"):
            walk(x[1], direct)
            return
        for y in x[1:]:
            if isinstance(y, tuple):
                if y and isinstance(y[0], tuple):
                    for z in y:
                        walk(z, False)
                else:
                    walk(y, False)

    walk(t, False)
    return out


def strip_iter(t):
    if not isinstance(t, tuple) or not t:
        return t
    if t[0] == "iter":
        return strip_iter(t[1])
    if t[0] in ("const", "obj", "rec", "unknown", "bottom", "param"):
        return t
    return tuple(strip_iter(x) if isinstance(x, tuple) else x for x in t)


def run(ctx, crate):
    obs = []
    sm = summary.Summ(crate)
    n_det = 0
    for cat, d in D.all_dispatch(crate).items():
        if not d.ok:
            obs.append(Ob("R19.scope", D.ANALYZE[cat], "dispatch analysable", False))
            continue
        for variant, s in sorted(d.table.items()):
            if variant in EXCLUDED:
                continue
            n_det += 1
            body = crate.bodies.get(s.resolved) or crate.bodies.get(s.path)
            label = body.path.rsplit("::", 1)[-1]
            # structural isolation of the detector and of the helpers it reaches (excluding the shared walker / tables)
            reach = S.reachable_bodies(crate, [body])
            for hb in reach.values():
                if hb.derived or hb.path.startswith("analyzer::ast::") or hb.path == VERSION_FN:
                    continue  # the walker (C01) and the pragma lookup (file-wide by design: pragmas are kept)
                obs += isolation.check_body("R19.iso", crate, hb, label if hb is body else "%s/%s" % (label, hb.path.rsplit("::", 1)[-1]))
            # scope of witnesses
            try:
                reps = sm.reports(body)
            except summary.Unanalysable as e:
                obs.append(Ob("R19.scope", body.path, "%s: summary extraction failed" % label, False, found=str(e)))
                continue
            for (t, f, site) in reps:
                roots = file_rooted_elems(t)
                E = None
                if roots:
                    # outermost: the one not containing another
                    E = sorted(roots, key=lambda x: core.term_size(x))[0]
                bad = []
                others = 0
                for key in B.atoms_of(f):
                    for part in key[1:]:
                        if not isinstance(part, tuple):
                            continue
                        for x in file_rooted_elems(part):
                            xs, es = strip_iter(x), (strip_iter(E) if E is not None else None)
                            if E is not None and (x == E or (xs == es and x == E)):
                                continue
                            if E is not None and x[1][0] != "iter" and xs == es:
                                continue
                            others += 1
                            # a different element variable of a file-rooted search: which item does it live in?
                            bad.append(show(x)[:90])
                        for c in T.calls_in(part):
                            if c[1] in crate.bodies and any(a == ("param", 1) or a == FILE for a in c[2]):
                                if c[1] == VERSION_FN or c[1] in NAME_TABLES or c[1] in core.SEARCH_FNS:
                                    continue
                                bad.append("file-wide helper %s" % core.short_fn(c[1]))
                # the verdict may not depend on a quantity computed from the whole file (a count, an all-or-nothing collect, ..)
                for part in [t] + [p_ for key in B.atoms_of(f) for p_ in key[1:] if isinstance(p_, tuple)]:
                    for agg in whole_file_aggregates(part):
                        bad.append("whole-file aggregate over %s" % show(agg)[:60])
                aggs = [b_ for b_ in bad if b_.startswith("whole-file aggregate")]
                # table-rooted reports (candidate tables) have no file-rooted element: their channel is the name-keyed table
                if E is None and aggs:
                    obs.append(Ob("R19.scope", body.path, "%s: %s does not depend on a quantity computed from the whole file" % (label, show(t)[:60]), False,
                                  expected="no count / all-or-nothing collect / fold over a search of the whole file", found=sorted(set(aggs)),
                                  example="a free function next to a contract"))
                    continue
                if E is None:
                    tabs = [c for c in T.calls_in(t) if c[1] in NAME_TABLES or c[1].endswith("get_function_definition_memory_args")]
                    ok = bool(tabs) or bool(T.calls_in(t))
                    obs.append(Ob("R19.scope", body.path, "%s: %s is keyed by state-variable / parameter name" % (label, show(t)[:60]), ok,
                                  expected="a name-keyed table entry (channel excluded by the property's quantifier)", nontrivial=True))
                    continue
                bad = sorted(set(bad))
                # identity-keyed location sets are allowed
                bad = [b_ for b_ in bad if not b_.startswith("file-wide helper increment_decrement::extract")]
                obs.append(Ob("R19.scope", body.path, "%s: the condition for %s only looks at the reported node's own item" % (label, show(t)[-50:]), not bad,
                              site=site.where if site else None, expected="witnesses reached from the reported node or its enclosing item", found=bad or "own item only",
                              nontrivial=others > 0 or len(B.atoms_of(f)) > 1))
    # the one file-wide input the detectors share is the version helper; it is an admissible channel only because it is a function of the file's pragma
    # directives alone (the property keeps them): every pragma directive is a candidate wherever it stands among the other items, and the search is cut
    # short only by a directive named solidity (C09's obligations on the helper)
    from rules import depend
    obs.append(depend.inherited(ctx, crate, "R19.version", VERSION_FN, "the version helper depends on the file's pragma directives only, not on the items around them "
                                "(C09's obligations on the pragma search)", "C09",
                                lambda o: o.rule == "R09.pragma" and o.detail.startswith(("all pragma directives", "other pragmas are skipped", "a version is produced only", "anchor missing")),
                                example="interface I {} pragma solidity 0.8.17; contract C { function f(uint a) external { require(a > 0, \"zero\"); } }"))
    # the reported lines are the detector's locations converted one by one: a conversion that carries state from one location to the next (a merge over
    # sorted offsets, a cursor into the file) lets a finding in one item decide what is reported for another (C02's obligations on the conversion)
    obs.append(depend.inherited(ctx, crate, "R19.lines", "analyze_for_* x3", "every location is converted to its line on its own, by counting the line feeds before it (C02's obligations on the line lookup)", "C02",
                                lambda o: o.rule in ("R02.plumb", "R02.canon", "R02.range"), example="`a / b * c * d` (two findings starting at the same byte) in an earlier item"))
    # state that outlives a call (a static, a thread-local counter or cache) is a channel between items like any carried local: what an earlier item left in it
    # decides how a later item is searched (C15's obligations on shared state)
    obs.append(depend.inherited(ctx, crate, "R19.iso.globals", "analysis code", "no state outlives the analysis of an item (C15's obligations on statics and effects)", "C15",
                                lambda o: o.rule in ("R15.globals", "R15.effects"), example="a depth counter in a thread-local that is not restored on an early return: a deeply nested item cuts short the search of every later one"))
    ctx.analysed.setdefault("C19", {})[crate.ctype] = {"detectors": n_det}
    return obs
