"""C10 — packing suggestions are sound with respect to the storage-slot model (DESIGN 5/C10)."""
from runner import Ob
import sites as S
import terms as T
import core
from core import show

META = {
    "level": "other",
    "rule": "one obligation per variant of pt::Type (size table), per guarded update of the slot counter's two state variables, per packing detector for "
            "the report condition, list construction and reported location; non-trivial = all",
    "explanation": "R10.sizes: get_type_size as a table variant -> expression equals {Address, AddressPayable: 160; Bool: 8; Int(n), Uint(n): n; Bytes(n): 8n; "
                   "every other Type variant and every non-type expression: 256} ('every other' computed from the ADT). R10.counter: storage_slots_used extracted as a "
                   "guarded-update system over (used, slots) equals the reference greedy system: per item if used + s > 256 then slots+1, used := s else used += s; "
                   "after the items if used > 0 then slots+1; result slots. R10.report: both packing detectors report iff counter(declared) > counter(sorted), where "
                   "declared is a clone taken before the list is sorted in place, both calls resolve to the same counter, the list holds get_type_size of every member in "
                   "declaration order, and the reported location is the contract's / struct's own. Consequences: reported => some permutation uses fewer slots; declared "
                   "order optimal => not reported; ascending sort saves => reported.",
    "assumptions": ["slice::sort yields a permutation (std contract)", "Solidity's layout rule is the greedy rule stated in the property"],
    "floors": {"R10.sizes": 13, "R10.counter": 7, "R10.report": 8},
}

SIZE_FN = "analyzer::utils::get_type_size"
SLOTS_FN = "analyzer::utils::storage_slots_used"
TYPE_ADT = "solang_parser::pt::Type"
SPEC_SIZES = {"Address": "160", "AddressPayable": "160", "Bool": "8", "Int": "P.0", "Uint": "P.0", "Bytes": "Mul((P.0 as u16), 8)"}


def run(ctx, crate):
    obs = []
    # ---------------- R10.sizes
    b = crate.bodies.get(SIZE_FN)
    adt = crate.adts.get(TYPE_ADT)
    if b is None or adt is None:
        obs.append(Ob("R10.sizes", SIZE_FN, "anchor missing", False))
    else:
        tyterm = core.mk_proj(core.mk_proj(("param", 1), ("dc", "Type")), ("f", 1, "1"))
        names = {tyterm: "ty"}
        table = {}
        default_ty = None
        non_type = None
        rows = []
        for g, v in S.ret_table(b, names):
            if g is None or not g:
                obs.append(Ob("R10.sizes", SIZE_FN, "arm with guard %s" % S.guard_str(g), False))
                continue
            rows += [([c_], v) for c_ in g]  # one arm reached on several paths (`_ => 256` of a nested match): one row per path
        for g, v in rows:
            conj = g[0]
            vs = None
            for a in conj:
                if a.startswith("is(ty; "):
                    vs = a[len("is(ty; "):-1].split("|")
            if vs:
                for nme in vs:
                    pv = core.mk_proj(tyterm, ("dc", nme))
                    table[nme] = show(v, {pv: "P"})
            elif any(a.startswith("!is(ty; ") for a in conj):
                default_ty = show(v) if default_ty in (None, show(v)) else "conflicting defaults"
            elif any(a.startswith("!is(arg1; Type") for a in conj):
                non_type = show(v) if non_type in (None, show(v)) else "conflicting defaults"
            else:
                obs.append(Ob("R10.sizes", SIZE_FN, "unrecognised arm %s" % S.guard_str(g), False))
        for var in adt["variants"]:
            nme = var["name"]
            want = SPEC_SIZES.get(nme, "256")
            got = table.get(nme, default_ty)
            obs.append(Ob("R10.sizes", SIZE_FN, "size of %s" % nme, got == want, expected=want, found=got))
        obs.append(Ob("R10.sizes", SIZE_FN, "size of a non-type expression", non_type == "256", expected="256", found=non_type))
    # ---------------- R10.counter
    c = crate.bodies.get(SLOTS_FN)
    if c is None:
        obs.append(Ob("R10.counter", SLOTS_FN, "anchor missing", False))
    else:
        problems = []
        # the two state variables: the locals carried round the loop (defined before it and again inside it), whatever they are called and
        # whether or not the source names them (`slots += 1` in a `for`, or the two components of a fold's accumulator)
        carried = []
        for l in range(1, len(c.locals)):
            ds = [d for d in c.defs.get(l, []) if d[2] == []]
            if len(ds) > 1 and any(c.loops_of(d[0]) for d in ds) and any(not c.loops_of(d[0]) for d in ds):
                carried.append(l)
        if len(carried) != 2:
            problems.append("expected two variables carried round the loop (slots, used), found %d" % len(carried))
        else:
            def attempt(n_local, u_local):
                o_ = []
                names = {("phikey", (c.path, n_local)): "slots", ("phikey", (c.path, u_local)): "used", ("elem", ("param", 1)): "s"}

                def table(l):
                    out = []
                    for bb, v in S.def_table(c, l):
                        out.append((len(c.loops_of(bb)), S.guard_str(S.block_guard(c, bb, names)), show(v, names)))
                    return sorted(out)
                want_used = sorted([(0, "true", "0"), (1, "(gt(Add(used, s), 256))", "s"), (1, "(!gt(Add(used, s), 256))", "Add(used, s)")])
                want_slots = [(0, "true", "0"), (1, "(gt(Add(used, s), 256))", "Add(slots, 1)")]
                gu, gs, gr = table(u_local), table(n_local), table(0)
                # the slot that is still open at the end: counted either by a last update of the counter, which is then returned, or in the result itself
                final_in_counter = (0, "(gt(used, 0))", "Add(slots, 1)")
                if final_in_counter in gs:
                    want_slots.append(final_in_counter)
                    ret = c.val_local(0)
                    want_ret = "the counter"
                    gr = "the counter" if ret[0] == "phi" and ret[1][1] == n_local else show(ret, names)[:120]
                else:
                    want_ret = sorted([(0, "(gt(used, 0))", "Add(slots, 1)"), (0, "(!gt(used, 0))", "slots")])
                    if gr == [(0, "true", "Add(slots, Gt(used, 0))")]:
                        want_ret = gr  # the same written as `slots + u32::from(used > 0)`
                want_slots = sorted(want_slots)
                labels = {0: "before / after the items", 1: "per item"}
                for w in want_used:
                    o_.append(Ob("R10.counter", SLOTS_FN, "used: %s when %s := %s" % (labels[w[0]], w[1], w[2]), w in gu, expected=w, found=gu))
                for w in want_slots:
                    o_.append(Ob("R10.counter", SLOTS_FN, "slots: %s when %s := %s" % (labels[w[0]], w[1], w[2]), w in gs, expected=w, found=gs))
                o_.append(Ob("R10.counter", SLOTS_FN, "result = slots closed, plus one if the open slot holds anything", gr == want_ret, expected=want_ret, found=gr))
                extra = [x for x in gu if x not in want_used] + [x for x in gs if x not in want_slots]
                o_.append(Ob("R10.counter", SLOTS_FN, "no other update of the two state variables", not extra, found=extra or "none"))
                return o_
            tries = [attempt(carried[0], carried[1]), attempt(carried[1], carried[0])]
            tries.sort(key=lambda o_: len([x for x in o_ if not x.ok]))
            obs += tries[0]
            lps = [h for h in c.loops]
            one_loop = len(lps) == 1
            its = [s for s in S.call_sites(c) if s.path == "std::iter::Iterator::next"]
            over_all = one_loop and len(its) == 1 and its[0].args[0] in (("param", 1), ("iter", ("param", 1)))
            if not over_all:
                problems.append("the items are not iterated by one loop over the argument")
        obs.append(Ob("R10.counter", SLOTS_FN, "counter is a single pass over all items returning slots", not problems, found=problems or "ok"))
    # ---------------- R10.report
    for fn, kind in (("analyzer::optimizations::pack_storage_variables::pack_storage_variables_optimization", "contract"),
                     ("analyzer::optimizations::pack_struct_variables::struct_can_be_packed", "struct")):
        d = crate.bodies.get(fn)
        if d is None:
            obs.append(Ob("R10.report", fn, "anchor missing", False))
            continue
        ss = S.call_sites(d)
        cnt = [s for s in ss if s.path == SLOTS_FN]
        sorts = [s for s in ss if s.path.endswith(("::sort", "::sort_unstable"))]
        clones = [s for s in ss if (s.path == "std::clone::Clone::clone" and s.fn and "Vec<u16>" in (s.fn["gargs"][0] if s.fn.get("gargs") else ""))
                  or (s.path in ("std::slice::<impl [T]>::to_vec", "core::slice::<impl [T]>::to_vec") and s.fn and (s.fn.get("gargs") or [""])[0] == "u16")]
        pushes = [s for s in ss if s.path == "std::vec::Vec::<T, A>::push"]
        ok = len(cnt) == 2 and len(sorts) == 1 and len(clones) == 1 and len(pushes) == 1
        if len(cnt) == 2 and len(sorts) == 1 and len(clones) == 0 and len(pushes) == 1:
            # no copy at all: the declared order is counted before the list is sorted in place, the sorted order after
            lst = pushes[0].args[0]
            so = sorts[0]
            before = [s for s in cnt if s.args and s.args[0] == lst and d.dominates(s.bb, so.bb) and s.bb != so.bb and not d.reaches_acyclic(so.bb, s.bb)]
            after = [s for s in cnt if s.args and s.args[0] == lst and d.dominates(so.bb, s.bb) and s.bb != so.bb]
            fill_done = len(d.loops_of(pushes[0].bb)) == len(d.loops_of(so.bb)) + 1 and all(len(d.loops_of(s.bb)) == len(d.loops_of(so.bb)) for s in cnt)
            seq_ok = len(before) == 1 and len(after) == 1 and so.args[0] == lst and fill_done
            obs.append(Ob("R10.report", fn, "declared order = the list (or its clone) that is not sorted; the clone is taken before the in-place sort", seq_ok,
                          expected="count(list) taken before list.sort(), count(list) taken after it", found="before=%d after=%d" % (len(before), len(after))))
            cmp_ok, cmp_found = False, None
            if seq_ok:
                want = ("bin", "Gt", before[0].result, after[0].result)
                if kind == "struct":
                    rv = d.val_local(0)
                    cmp_ok, cmp_found = rv == want, show(rv)[:120]
                else:
                    ins = [s for s in ss if s.path.endswith("::insert") and s.args and s.args[0] == d.val_local(0)]
                    if len(ins) == 1:
                        raw = core.block_guard_atoms(d, ins[0].bb) or []
                        atoms = [a for c_ in raw for a in c_ if a[0] in ("true", "false")]
                        cmp_ok = len(raw) == 1 and len(atoms) == 1 and S.norm_atom(atoms[0]) == S.norm_atom(("true", want))  # (`!(a <= b)` is `a > b`)
                        cmp_found = S.guard_str(ins[0].guard)[-160:]
            obs.append(Ob("R10.report", fn, "reported iff counter(declared) > counter(sorted)", cmp_ok, expected="slots(declared) > slots(sorted)", found=cmp_found))
            ok = "noclone"
        if not ok:
            obs.append(Ob("R10.report", fn, "shape: one list, one clone, one sort, two counter calls", False,
                          found="counter=%d sort=%d clone=%d push=%d" % (len(cnt), len(sorts), len(clones), len(pushes))))
            continue
        if ok != "noclone":
            lst = pushes[0].args[0]
            cl, so = clones[0], sorts[0]
            same_list = cl.args[0] == lst and so.args[0] == lst
            # clone taken before the sort, after the list is complete (outside the filling loop)
            order_ok = d.dominates(cl.bb, so.bb) and cl.bb != so.bb and d.loops_of(cl.bb) == d.loops_of(so.bb) \
                and len(d.loops_of(pushes[0].bb)) == len(d.loops_of(cl.bb)) + 1 and d.dominates(pushes[0].bb, cl.bb) is False \
                and all(d.dominates(h, cl.bb) for h in d.loops_of(pushes[0].bb)[-1:])
            # which counter call gets the clone / the sorted list: resolve the operand's origin local
            def origin(site):
                o = site.term["args"][0]
                if o["k"] not in ("copy", "move"):
                    return None
                l = o["p"]["l"]
                seen = set()
                while l not in seen:
                    seen.add(l)
                    ds = [x for x in d.defs.get(l, []) if x[2] == []]
                    if len(ds) == 1 and ds[0][3] == "rv" and ds[0][4]["k"] == "use" and ds[0][4]["o"]["k"] in ("copy", "move") and not ds[0][4]["o"]["p"]["pr"]:
                        l = ds[0][4]["o"]["p"]["l"]
                        continue
                    if len(ds) == 1 and ds[0][3] == "call":
                        return ("call", ds[0][0])
                    return ("local", l)
                return None
            def origin_of_local(l):
                seen = set()
                while l not in seen:
                    seen.add(l)
                    ds = [x for x in d.defs.get(l, []) if x[2] == []]
                    if len(ds) == 1 and ds[0][3] == "rv" and ds[0][4]["k"] == "use" and ds[0][4]["o"]["k"] in ("copy", "move") and not ds[0][4]["o"]["p"]["pr"]:
                        l = ds[0][4]["o"]["p"]["l"]
                        continue
                    if len(ds) == 1 and ds[0][3] == "rv" and ds[0][4]["k"] == "ref" and all(e == "deref" for e in ds[0][4]["p"]["pr"]):
                        l = ds[0][4]["p"]["l"]
                        continue
                    if len(ds) == 1 and ds[0][3] == "call" and (d.callee(ds[0][4]) or {}).get("path") in ("std::ops::DerefMut::deref_mut", "std::ops::Deref::deref"):
                        a0 = ds[0][4]["args"][0]
                        if a0["k"] in ("copy", "move"):
                            l = a0["p"]["l"]
                            continue
                    if len(ds) == 1 and ds[0][3] == "call":
                        return ("call", ds[0][0])
                    return ("local", l)
                return None
            # which of the two lists (the original or its clone) is sorted in place: the other one is the declared order
            so_arg = so.term["args"][0]
            sorted_origin = origin_of_local(so_arg["p"]["l"]) if so_arg["k"] in ("copy", "move") else None
            def origin(site):  # (the counter may take the list by value or as a borrowed slice)
                o = site.term["args"][0]
                return origin_of_local(o["p"]["l"]) if o["k"] in ("copy", "move") else None
            o_sorted = [s for s in cnt if origin(s) == sorted_origin]
            o_decl = [s for s in cnt if s not in o_sorted]
            clone_origin = ("call", cl.bb)
            if not (len(o_decl) == 1 and len(o_sorted) == 1 and clone_origin in (origin(o_decl[0]), origin(o_sorted[0])) and origin(o_decl[0]) != origin(o_sorted[0])):
                o_decl, o_sorted = [], []
            after_sort = all(d.dominates(so.bb, s.bb) for s in o_sorted) and len(o_sorted) == 1 and len(o_decl) == 1
            obs.append(Ob("R10.report", fn, "declared order = the list (or its clone) that is not sorted; the clone is taken before the in-place sort", same_list and order_ok and after_sort,
                          expected="copy = sizes.clone(); exactly one of the two is sorted afterwards; compare counter(unsorted) with counter(sorted)",
                          found="same_list=%s clone_before_sort=%s sorted_list_counted_after_sort=%s" % (same_list, order_ok, after_sort)))
            # the comparison
            cmp_ok = False
            cmp_found = None
            if len(o_decl) == 1 and len(o_sorted) == 1:
                want = ("bin", "Gt", o_decl[0].result, o_sorted[0].result)
                if kind == "struct":
                    rv = d.val_local(0)
                    cmp_ok = rv == want
                    cmp_found = show(rv)[:120]
                    if not cmp_ok and rv[0] == "phi" and all(m[0] == "const" and m[1] == "bool" for m in rv[2]):
                        # `if a > b { .. true } else { false }`: true is returned exactly under the comparison
                        trues = [bb_ for (bb_, v_) in S.def_table(d, 0) if v_ == ("const", "bool", True)]
                        falses = [bb_ for (bb_, v_) in S.def_table(d, 0) if v_ == ("const", "bool", False)]
                        if len(trues) == 1 and len(falses) == 1:
                            raw_t = core.block_guard_atoms(d, trues[0]) or []
                            raw_f = core.block_guard_atoms(d, falses[0]) or []
                            at_t = [a for c_ in raw_t for a in c_ if a[0] in ("true", "false")]
                            at_f = [a for c_ in raw_f for a in c_ if a[0] in ("true", "false")]
                            cmp_ok = len(raw_t) == 1 and len(at_t) == 1 and S.norm_atom(at_t[0]) == S.norm_atom(("true", want)) and \
                                len(raw_f) == 1 and len(at_f) == 1 and S.norm_atom(at_f[0]) == S.norm_atom(("false", want))
                            cmp_found = "true under %s" % S.guard_str(S.block_guard(d, trues[0]))[-120:]
                else:
                    ins = [s for s in ss if s.path.endswith("::insert") and s.args and s.args[0] == d.val_local(0)]
                    if len(ins) == 1:
                        raw = core.block_guard_atoms(d, ins[0].bb) or []
                        atoms = [a for c_ in raw for a in c_ if a[0] in ("true", "false")]
                        cmp_ok = len(raw) == 1 and len(atoms) == 1 and S.norm_atom(atoms[0]) == S.norm_atom(("true", want))  # (`!(a <= b)` is `a > b`)
                        cmp_found = S.guard_str(ins[0].guard)[-160:]
            obs.append(Ob("R10.report", fn, "reported iff counter(declared) > counter(sorted)", cmp_ok, expected="slots(declared) > slots(sorted)", found=cmp_found))
        # list construction: size of every member in declaration order
        p = pushes[0]
        val = p.args[1]
        built = T.is_call(val, "get_type_size") and val[2] and val[2][0][0] == "proj" and val[2][0][2][0] == "f" and val[2][0][2][2] == "ty"
        member = val[2][0][1] if built else None
        g = p.guard
        if kind == "contract":
            allowed = member is not None and g is not None and len(g) == 1 and all(a.startswith("is(") for a in g[0]) and \
                sum(1 for a in g[0] if a.endswith("; VariableDefinition)")) == 1 and sum(1 for a in g[0] if a.endswith("; ContractDefinition)")) == 1 and len(g[0]) == 2
        else:
            allowed = member is not None and g == [[]]
        one_loop = len(d.loops_of(p.bb)) == (2 if kind == "contract" else 1)
        # the filling loop visits the definition's own member list, every element, in list order (no skip / take / rev / filter adaptor, no early exit)
        import order as O
        inner = sorted([lp for lp in O.loops_of_body(d) if p.bb in lp.blocks], key=lambda lp: len(lp.blocks))
        whole = False
        if inner and member is not None:
            lp = inner[0]
            it = lp.iterable
            adapt = [c for c in T.calls_in(it) if c[1].startswith("std::iter::Iterator::") or c[1].startswith(("core::slice::<impl [T]>::", "std::slice::<impl [T]>::")) and not c[1].endswith(("::iter", "::iter_mut"))]
            fo = T.field_of(it)
            whole = not adapt and fo is not None and it[2][2] in ("parts", "fields") and T.contains(member, ("elem", it)) and not lp.exits()[1] and lp.order == "ordered"
        one_loop = one_loop and whole
        obs.append(Ob("R10.report", fn, "the list holds the size of every member, in declaration order", bool(built and allowed and one_loop),
                      expected="for member in members: sizes.push(get_type_size(member.ty))", found="value=%s guard=%s" % (show(val)[:70], S.guard_str(g)[-120:])))
    # reported locations
    ps = crate.bodies.get("analyzer::optimizations::pack_storage_variables::pack_storage_variables_optimization")
    if ps is not None:
        ins = [s for s in S.call_sites(ps) if s.path.endswith("::insert") and s.args and s.args[0] == ps.val_local(0)]
        ok = len(ins) == 1 and ins[0].args[1][0] == "proj" and ins[0].args[1][2][0] == "f" and ins[0].args[1][2][2] == "loc" and "ContractDefinition" in show(ins[0].args[1])
        obs.append(Ob("R10.report", ps.path, "the contract's own location is reported", ok, found=show(ins[0].args[1])[-60:] if ins else None))
    pst = crate.bodies.get("analyzer::optimizations::pack_struct_variables::pack_struct_variables_optimization")
    if pst is not None:
        ss = S.call_sites(pst)
        ins = [s for s in ss if s.path.endswith("::insert") and s.args and s.args[0] == pst.val_local(0)]
        oks = []
        for s in ins:
            loc = s.args[1]
            fo = T.field_of(loc)
            st = fo[0] if fo else None
            raw = core.block_guard_atoms(pst, s.bb) or []
            called = [a for c_ in raw for a in c_ if a[0] == "true" and T.is_call(a[1], "struct_can_be_packed") and a[1][2] and a[1][2][0] == st]
            oks.append(bool(fo) and loc[2][2] == "loc" and len(called) == 1)
        obs.append(Ob("R10.report", pst.path, "a struct's own location is reported iff that struct can be packed", len(ins) == 2 and all(oks),
                      expected="two insert sites (file-level and contract-level structs), each guarded by struct_can_be_packed(the same struct)", found=oks))
    return obs
