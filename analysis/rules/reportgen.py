"""Anatomy of the three report generators and of generate_report, shared by C11 and C12."""
import re
import sites as S
import terms as T
import order as O
from core import show

GENERATORS = {
    "optimizations": "report::optimization_report::generate_optimization_report",
    "vulnerabilities": "report::vulnerability_report::generate_vulnerability_report",
    "qa": "report::qa_report::generate_qa_report",
}
SECTION_FNS = {
    "optimizations": "report::optimization_report::get_optimization_report_section",
    "vulnerabilities": "report::vulnerability_report::get_vulnerability_report_section",
    "qa": "report::qa_report::get_qa_report_section",
}
PUSH = ("std::string::String::push_str",)


def _unescape_bytes(disp):
    """b".." as printed by rustc -> list of byte values"""
    m = re.search(r'b"(.*)"', disp, re.S)
    if not m:
        return None
    s_ = m.group(1)
    out = []
    i = 0
    while i < len(s_):
        c = s_[i]
        if c == "\\":
            n = s_[i + 1]
            if n == "x":
                out.append(int(s_[i + 2:i + 4], 16))
                i += 4
                continue
            out.append({"n": 10, "r": 13, "t": 9, "0": 0, "\\": 92, '"': 34, "'": 39}.get(n, ord(n)))
            i += 2
            continue
        out += list(c.encode("utf-8"))
        i += 1
    return out


def decode_format(t):
    """format!(..) as lowered by this toolchain: fmt::format(Arguments::new(template bytes, [args])) -> pieces, or None.
    Template: a byte < 0x80 announces a literal run of that length, 0xC0 the next argument with default formatting, 0x00 the end."""
    if not (t[0] == "call" and t[1] in ("std::fmt::format", "alloc::fmt::format") and t[2]):
        return None
    a = t[2][0]
    if a[0] == "call" and "fmt::Arguments::<" in a[1] and a[1].endswith("::from_str") and a[2]:
        return [a[2][0]]
    if not (a[0] == "call" and "fmt::Arguments::<" in a[1] and a[1].endswith("::new") and len(a[2]) == 2):
        return None
    tmpl, args = a[2]
    if not (tmpl[0] == "const" and tmpl[1] == "other"):
        return None
    bs = _unescape_bytes(tmpl[2])
    arr = [x for x in [args] if x[0] == "agg" and x[1] == "array"]
    if bs is None or not arr:
        return None
    argv = list(arr[0][3])
    out = []
    i = 0
    k = 0
    while i < len(bs):
        b = bs[i]
        if b == 0:
            break
        if b < 0x80:
            out.append(("const", "str", bytes(bs[i + 1:i + 1 + b]).decode("utf-8", "replace")))
            i += 1 + b
        elif b == 0xC0:
            if k >= len(argv):
                return None
            out.append(argv[k])
            k += 1
            i += 1
        else:
            return None
    return out


def flatten(t):
    """pieces of a string expression built with `+` or format!"""
    if t[0] == "call" and t[1] == "std::ops::Add::add" and len(t[2]) == 2:
        return flatten(t[2][0]) + flatten(t[2][1])
    f = decode_format(t)
    if f is not None:
        out = []
        for x in f:
            out += flatten(x)
        return out
    return [t]


def lit(t):
    if t[0] == "const" and t[1] == "str":
        return t[2]
    if t[0] == "obj" and t[2][0] == "const":
        return t[2][2]
    # format!("text {}", CONSTANT) with only constant arguments is folded by the compiler into one constant piece: format(Arguments::from_str*(..))
    if t[0] == "call" and t[1].rsplit("::", 1)[-1] == "format" and "fmt" in t[1] and len(t[2]) == 1:
        a = t[2][0]
        if a[0] == "call" and a[1].rsplit("::", 1)[-1] in ("from_str", "from_str_nonconst", "new_const") and "Arguments" in a[1] and len(a[2]) == 1:
            return lit(a[2][0])
    return None


class Gen:
    def __init__(self, crate, cat):
        self.cat = cat
        self.path = GENERATORS[cat]
        self.body = crate.bodies.get(self.path)
        self.ok = self.body is not None
        self.problems = []
        if not self.ok:
            return
        b = self.body
        self.sites = S.call_sites(b)
        self.loops = O.loops_of_body(b)
        # nest: outer (patterns) > files > lines
        self.outer = self.files = self.lines = None
        for lp in self.loops:
            depth = len(b.loops_of(lp.site.bb))
            if depth == 1:
                self.outer = lp if self.outer is None else self.problems.append("two outer loops") or self.outer
            elif depth == 2:
                self.files = lp if self.files is None else self.problems.append("two file loops") or self.files
            elif depth == 3:
                self.lines = lp if self.lines is None else self.problems.append("two line loops") or self.lines
            else:
                self.problems.append("loop depth %d" % depth)
        if not (self.outer and self.files and self.lines):
            self.problems.append("expected a three-level loop nest (patterns > files > lines)")
            return
        self.E = ("elem", self.outer.iterable)
        self.F = ("elem", self.files.iterable)
        self.L = ("elem", self.lines.iterable)
        self.pushes = [s for s in self.sites if s.path in PUSH and s.args]
        self.section_calls = [s for s in self.sites if s.path == SECTION_FNS[cat]]
        self.overview = [s for s in self.sites if s.path.endswith("::overview::report_section_content")]

    def in_loop(self, site, lp):
        return site.bb in lp.blocks

    def order_key(self, site):
        return self.body.rpo_idx.get(site.bb, 1 << 30)


def section_table(crate, cat):
    """variant -> (section fn path, extra) from the dispatch function's return table"""
    b = crate.bodies.get(SECTION_FNS[cat])
    if b is None:
        return None, "missing " + SECTION_FNS[cat]
    tab = {}
    for g, v in S.ret_table(b):
        vs = S.variant_of_guard(g)
        if vs is None:
            return None, "arm guarded by %s" % S.guard_str(g)
        for name in vs:
            if name in tab:
                return None, "variant %s mapped twice" % name
            tab[name] = v
    return tab, None


def literal_of_section(crate, path):
    """the string literal(s) a report_section_content function is built from"""
    b = crate.bodies.get(path)
    if b is None:
        return None
    out = []
    for x in T.subterms(b.val_local(0)):
        if x[0] == "const" and x[1] == "str":
            out.append(x[2])
    # format! based sections: pieces live in Arguments::new byte strings; take every str/bytes constant in the body
    for blk_i in b.reach:
        blk = b.blocks[blk_i]
        for op in _operands(blk):
            if op.get("k") == "const":
                if "str" in op:
                    out.append(op["str"])
                elif op.get("ty", "").startswith("&[u8") or "b\"" in op.get("disp", ""):
                    out.append(_bytes_disp(op.get("disp", "")))
    seen = []
    for o in out:
        if o not in seen:
            seen.append(o)
    return seen


def _bytes_disp(d):
    m = re.search(r'b"(.*)"', d, re.S)
    if not m:
        return d
    s = m.group(1)
    try:
        return bytes(s, "latin-1").decode("unicode_escape").encode("latin-1", "replace").decode("utf-8", "replace")
    except Exception:
        return s


def _operands(blk):
    def walk(x):
        if isinstance(x, dict):
            if x.get("k") == "const":
                yield x
            for v in x.values():
                yield from walk(v)
        elif isinstance(x, list):
            for v in x:
                yield from walk(v)
    yield from walk(blk)
