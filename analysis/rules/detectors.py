"""Discovery of the detectors from the dispatch in analyze_for_* (not listed by hand)."""
import sites as S
import terms as T
from core import show

ANALYZE = {
    "optimizations": "analyzer::optimizations::analyze_for_optimization",
    "vulnerabilities": "analyzer::vulnerabilities::analyze_for_vulnerability",
    "qa": "analyzer::qa::analyze_for_qa",
}
PARSE = "solang_parser::parse"
LINE_FN = "analyzer::utils::get_line_number"


class Dispatch:
    def __init__(self, crate, cat):
        self.cat = cat
        self.path = ANALYZE[cat]
        self.body = crate.bodies.get(self.path)
        self.ok = self.body is not None
        self.problems = []
        self.table = {}  # variant -> Site of the detector call
        self.extra_guards = {}
        if not self.ok:
            return
        b = self.body
        self.sites = S.call_sites(b)
        ps = [s for s in self.sites if s.path == PARSE]
        self.parse = ps[0] if len(ps) == 1 else None
        if self.parse is None:
            self.problems.append("expected exactly one call of solang_parser::parse, found %d" % len(ps))
            return
        self.tree = None
        for s in self.sites:
            if s.local and s.args and len(s.args) == 1 and T.contains(s.args[0], self.parse.result) and s.path != self.path:
                vs = None
                g = s.guard
                if g and len(g) == 1:
                    sel = [a for a in g[0] if a.startswith("is(arg3; ")]
                    if len(sel) == 1:
                        vs = S.variant_of_guard([[sel[0]]], "arg3")
                        extra = [a for a in g[0] if a != sel[0]]
                        if extra:
                            self.extra_guards[s.path] = extra
                if not vs:
                    self.problems.append("detector call %s guarded by %s" % (s.path, S.guard_str(g)))
                    continue
                for v in vs:
                    if v in self.table:
                        self.problems.append("variant %s dispatched twice" % v)
                    self.table[v] = s
                self.tree = s.args[0]


def all_dispatch(crate):
    return {c: Dispatch(crate, c) for c in ANALYZE}


def detector_bodies(crate):
    """bodies reachable from the dispatched detector functions"""
    roots = []
    for d in all_dispatch(crate).values():
        if d.ok:
            for s in d.table.values():
                b = crate.bodies.get(s.resolved) or crate.bodies.get(s.path)
                if b is not None:
                    roots.append(b)
    return S.reachable_bodies(crate, roots)
