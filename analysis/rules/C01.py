"""C01 — a pattern is found wherever it is nested in the source (DESIGN 5/C01).

Premises of the structural induction "walk_node_for_targets(targets, n) = pre-order list of the descendants of n, outside assembly,
whose kind is in targets", generated from the parser's ADT definitions and discharged on the walker's MIR."""
from collections import defaultdict
from runner import Ob
import sites as S
import terms as T
import ptree
import core
from core import show

WALKER = "analyzer::ast::walk_node_for_targets"
ENTRY1 = "analyzer::ast::extract_target_from_node"
ENTRYN = "analyzer::ast::extract_targets_from_node"
TABLES = {
    "Statement": "analyzer::ast::statement_as_target",
    "Expression": "analyzer::ast::expression_as_target",
    "SourceUnitPart": "analyzer::ast::source_unit_part_as_target",
    "ContractPart": "analyzer::ast::contract_part_as_target",
}

META = {
    "level": "proof",
    "rule": "obligations are generated from the ADT definitions of solang_parser::pt: one per (variant, node-typed child path) [R01.children], one per variant "
            "for order / multiplicity / unconditional descent [R01.order, R01.once, R01.uncond], the fixed pre-order and entry-point obligations, and one per "
            "classification-table entry; non-trivial = variants with at least one child, and all table/pre-order obligations",
    "explanation": "Structural induction over the parse tree: for every variant of every node type the walker recurses into exactly the node-typed children the "
                   "type definition has (each once, in field order, unconditionally), pushes the node itself first iff its kind is requested, appends every recursive "
                   "result and returns the list. Together with injective classification tables this proves the result is the pre-order list of requested kinds.",
    "trusted_base": ["rustc MIR construction", "the fact extractor and the Python engines (CFG, provenance, guards)",
                     "std: Vec::push/append, for-loops over Vec, Option::unwrap, HashSet::contains/insert",
                     "field declaration order = source order for solang_parser 0.1.18 (checked by reading the grammar)",
                     "inline assembly (Yul types) is excluded by type, as the property states"],
    "assumptions": ["parser correctness is out of scope", "declaration order of fields coincides with source order (DESIGN 4.1)"],
    "floors": {"R01.children": 99, "R01.order": 99, "R01.uncond": 60, "R01.preorder": 5, "R01.tables": 95, "R01.entry": 4, "R01.loops": 25},
}


def chain_of(t):
    out = []
    while t[0] in ("proj", "elem"):
        out.append(t)
        t = t[1]
    out.reverse()
    return out


def exclusive(a, b):
    """two child paths cannot occur in the same tree value: they diverge at different variants of the same enum"""
    ca, cb = chain_of(a), chain_of(b)
    for x, y in zip(ca, cb):
        if x == y:
            continue
        return x[0] == "proj" and y[0] == "proj" and x[2][0] == "dc" and y[2][0] == "dc" and x[1] == y[1] and x[2][1] != y[2][1]
    return False


def shared_list_levels(a, b):
    """number of list levels ([*]) on the common prefix of two paths"""
    ca, cb = chain_of(a), chain_of(b)
    n = 0
    for x, y in zip(ca, cb):
        if x != y:
            break
        if x[0] == "elem":
            n += 1
    return n


def rel(t, root):
    """render term t relative to payload root"""
    return show(t, {root: "n"})


def run(ctx, crate):
    obs = []
    tree = ptree.Tree(crate)
    w = crate.bodies.get(WALKER)
    if not tree.ok or w is None:
        return [Ob("R01.children", WALKER, "anchor missing (Node enum / walker)", False)]
    sites = S.call_sites(w)
    rec = [s for s in sites if s.path == WALKER]
    matches = w.val_local(0)
    node = ("param", 2)
    # ------------------------------------------------------------ classify recursive calls
    by_variant = defaultdict(list)  # (wrapper, variant) -> [(site, child term, wrapped kind)]
    bad_calls = []
    for s in rec:
        if len(s.args) != 2 or s.args[0] != ("param", 1):
            bad_calls.append((s, "targets argument is not the function's own targets"))
            continue
        a = s.args[1]
        if not (a[0] == "agg" and a[1] == "adt" and a[2].startswith(ptree.NODE_ENUM + "::") and len(a[3]) == 1):
            bad_calls.append((s, "node argument %s is not a wrapped sub-tree" % show(a)[:80]))
            continue
        kind = a[2].rsplit("::", 1)[-1]
        child = a[3][0]
        # find wrapper / variant from the path root
        t = child
        chain = []
        while t[0] in ("proj", "elem"):
            chain.append(t)
            t = t[1]
        if t != node or len(chain) < 2:
            bad_calls.append((s, "node argument %s is not a sub-term of the node" % show(a)[:80]))
            continue
        chain.reverse()  # from the node outwards
        w0 = chain[0]
        if not (w0[0] == "proj" and w0[2][0] == "dc" and w0[2][1] in tree.wrappers):
            bad_calls.append((s, "unexpected root %s" % show(child)[:80]))
            continue
        wrapper = w0[2][1]
        payload = chain[1]
        ntype = tree.wrappers[wrapper]
        kindv, adtkind = tree.variants(ntype)
        if adtkind == "enum":
            if len(chain) < 3 or chain[2][2][0] != "dc":
                bad_calls.append((s, "recursion on the whole payload %s" % show(child)[:80]))
                continue
            variant = chain[2][2][1]
        else:
            variant = kindv[0]["name"]
        by_variant[(wrapper, variant)].append((s, child, kind, payload))
    for (s, why) in bad_calls:
        obs.append(Ob("R01.children", WALKER, "recursive call: %s" % why, False, site=s.where))
    # a loop over a list written out with one element (`for e in vec![x]`) runs exactly once for x: it is not a level of the tree
    import order as O
    singleton_heads = set()
    for lp_ in O.loops_of_body(w):
        it_ = lp_.iterable
        while it_[0] == "iter":
            it_ = it_[1]
        if it_[0] == "agg" and it_[1] == "array" and it_[2] != "repeat" and len(it_[3]) == 1 and lp_.head is not None:
            singleton_heads.add(lp_.head)
    # ------------------------------------------------------------ per variant obligations
    n_variants = 0
    for wrapper, ntype in sorted(tree.wrappers.items()):
        payload = core.mk_proj(core.mk_proj(node, ("dc", wrapper)), ("f", 0, "0"))
        vs, adtkind = tree.variants(ntype)
        for v in vs:
            n_variants += 1
            vname = v["name"]
            label = "%s::%s" % (ntype.rsplit("::", 1)[-1], vname)
            want = tree.children(ntype, vname, payload) or []
            got = by_variant.get((wrapper, vname), [])
            want_s = [rel(t, payload) for (t, _) in want]
            got_sorted = sorted(got, key=lambda x: w.rpo_idx.get(x[0].bb, 1 << 30))
            got_s = [rel(c, payload) for (_, c, _, _) in got_sorted]
            # R01.children: multiset equality, one obligation per expected child + one per surplus call
            remaining = list(got_s)
            if not want_s:
                obs.append(Ob("R01.children", WALKER, "%s|leaf: no recursion" % label, not got_s, expected="no node-typed child", found=got_s or "none", nontrivial=False))
            for ws in want_s:
                ok = ws in remaining
                if ok:
                    remaining.remove(ws)
                obs.append(Ob("R01.children", WALKER, "%s|missing %s" % (label, ws) if not ok else "%s|visits %s" % (label, ws), ok,
                              expected="recursion into %s" % ws, found="visited" if ok else "sub-tree dropped",
                              example=None if ok else "a pattern nested at %s.%s" % (label, ws)))
            for extra in remaining:
                obs.append(Ob("R01.children", WALKER, "%s|extra %s" % (label, extra), False,
                              expected="each child visited exactly once", found="visited again / foreign node %s" % extra))
            # wrapped kind agrees with the child's node type
            for (s, c, kind, _) in got:
                cs = rel(c, payload)
                exp = [tree.wrapper_of[nt] for (t, nt) in want if rel(t, payload) == cs]
                if exp and exp[0] != kind:
                    obs.append(Ob("R01.children", WALKER, "%s|%s wrapped as %s" % (label, cs, kind), False, expected=exp[0], found=kind))
            # R01.order: for every pair of children that can coexist, the earlier field is visited first;
            # children below the same list level are visited in one loop (elements interleave in source order)
            want_t = [t for (t, _) in want]
            got_pos = {}
            for i, (s_, c_, _, _) in enumerate(got_sorted):
                got_pos.setdefault(rel(c_, payload), (i, s_))
            bad_pairs = []
            for i in range(len(want_t)):
                for j in range(i + 1, len(want_t)):
                    a_, b_ = want_s[i], want_s[j]
                    if a_ not in got_pos or b_ not in got_pos:
                        continue
                    sa, sb = got_pos[a_][1], got_pos[b_][1]
                    shared = shared_list_levels(want_t[i], want_t[j])
                    if shared:
                        la, lb = w.loops_of(sa.bb), w.loops_of(sb.bb)
                        if la[:shared] != lb[:shared]:
                            bad_pairs.append("%s and %s are visited by different loops over the same list" % (a_, b_))
                    if exclusive(want_t[i], want_t[j]):
                        continue
                    if not (w.reaches(sa.bb, sb.bb) or sa.bb == sb.bb) or (w.reaches(sb.bb, sa.bb) and not shared):
                        bad_pairs.append("%s must be visited before %s" % (a_, b_))
            obs.append(Ob("R01.order", WALKER, "%s|children visited in source order" % label, not bad_pairs,
                          expected=want_s, found=bad_pairs or "in order", nontrivial=len(want_s) > 1))
            # R01.once / R01.uncond per call
            for (s, c, kind, _) in got:
                cs = rel(c, payload)
                stars = cs.count("[*]")
                depth = len([h_ for h_ in w.loops_of(s.bb) if h_ not in singleton_heads])
                if depth != stars:
                    obs.append(Ob("R01.once", WALKER, "%s|%s inside %d loop(s)" % (label, cs, depth), False, site=s.where,
                                  expected="loop nesting = number of list levels on the path (%d)" % stars, found=depth))
                # allowed atoms: variant tests / is-some tests on prefixes of the child's own path
                allowed = set()
                t = c
                while t[0] in ("proj", "elem"):
                    if t[0] == "proj" and t[2][0] == "dc":
                        allowed.add("is(%s; %s)" % (show(t[1]), t[2][1]))
                    t = t[1]
                g = s.guard
                ok = g is not None and len(g) == 1 and set(g[0]) == allowed
                obs.append(Ob("R01.uncond", WALKER, "%s|%s descended unconditionally" % (label, cs), ok, site=s.where,
                              expected="guards implied by the path only: %s" % sorted(a.replace(show(payload), "n") for a in allowed),
                              found=S.guard_str(g).replace(show(payload), "n")))
    ctx.analysed.setdefault("C01", {})[crate.ctype] = {"variants": n_variants, "recursive_calls": len(rec)}
    # ------------------------------------------------------------ R01.loops: every list is walked to its end
    import order as O
    for lp in O.loops_of_body(w):
        normal, extra = lp.exits()
        it = show(lp.iterable)
        obs.append(Ob("R01.loops", WALKER, "the loop over %s visits every element (no break / early return)" % it[-70:], not extra and lp.order == "ordered",
                      site=lp.site.where, expected="exhaustion is the only exit; iteration in list order",
                      found=("early exit at line(s) %s" % sorted(set(w.blocks[x]["tloc"]["line"] for (x, t) in extra))) if extra else lp.self_ty.split("<")[0],
                      example="a tuple with an omitted component followed by further components: (, a[i++]) = f();"))
    plain_loops = [h for h in w.loops if not any(lp.head == h for lp in O.loops_of_body(w))]
    obs.append(Ob("R01.loops", WALKER, "no loop other than list iteration", not plain_loops, found=len(plain_loops)))
    # ------------------------------------------------------------ R01.preorder
    pushes = [s for s in sites if s.path == "std::vec::Vec::<T, A>::push" and s.args and s.args[0] == matches]
    appends = [s for s in sites if s.path == "std::vec::Vec::<T, A>::append" and s.args and s.args[0] == matches]
    # intermediate lists: a list created empty, filled only by appending recursive results and then appended as a whole, once and unconditionally
    # (under the guard of its creation), to the result list (or to another such list) carries its content into the result in the same order
    all_app = [s for s in sites if s.path == "std::vec::Vec::<T, A>::append" and len(s.args) == 2]
    carriers = {}
    changed_ = True
    while changed_:
        changed_ = False
        for a in all_app:
            tgt, src = a.args[0], a.args[1]
            if (tgt == matches or tgt in carriers) and src not in carriers and src != matches and T.is_call(src, "new") and "Vec" in src[1] and src[3] and src[3][0] == w.path:
                uses_ = [s for s in sites if s is not a and any(x == src for x in s.args)]
                fills = [s for s in uses_ if s in all_app and s.args[0] == src]
                cb = src[3][1]
                # nothing else goes into the target between the first fill of the carrier and the carrier's own append (order is kept)
                between = [x for x in all_app if x is not a and x.args[0] == tgt and any(w.reaches(f_.bb, x.bb) for f_ in fills) and w.reaches(x.bb, a.bb)]
                if len(fills) == len(uses_) and not between and S.block_guard(w, a.bb) == S.block_guard(w, cb) and w.loops_of(a.bb) == w.loops_of(cb) and w.dominates(cb, a.bb):
                    carriers[src] = a
                    changed_ = True
    carrier_appends = list(carriers.values())
    appends += [s for s in all_app if s.args[0] in carriers and s not in carrier_appends]
    other_mut = [s for s in sites if s.args and s.args[0] == matches and s not in pushes and s not in appends and s not in carrier_appends
                 and not s.path.endswith(("::len", "::iter", "::clone", "::is_empty"))]
    # a recursive result handed over element by element (`matches.extend(walk(..))`, `for n in walk(..) { matches.push(n) }`): the loop runs over the
    # result itself, in list order, to exhaustion, and pushes every element under the loop's own guard -- the same as one append at the loop
    import order as O_
    elementwise = {}
    for p_ in list(pushes):
        x_ = p_.args[1]
        if x_[0] != "elem":
            continue
        for r in rec:
            if x_[1] == r.result:
                lps_ = [lp for lp in O_.loops_of_body(w) if lp.iterable == r.result and p_.bb in lp.blocks]
                if len(lps_) == 1 and lps_[0].order == "ordered" and not lps_[0].exits()[1] and w.loops_of(p_.bb) == w.loops_of(r.bb) + [lps_[0].head] \
                        and w.dominates(r.bb, lps_[0].head) and S.block_guard(w, p_.bb) == S.block_guard(w, lps_[0].site.bb) and p_.guard == r.guard:
                    elementwise[id(r)] = (p_, lps_[0])
                    pushes.remove(p_)
                break
    ok_push = False
    if len(pushes) == 1:
        p = pushes[0]
        # the requested kinds are a set (HashSet) or a plain list of kinds (slice): membership is the same question either way
        want_guards = [[["%s::contains(%s, %s)" % (c, show(("param", 1)), "Node::as_target(%s)" % show(node))]] for c in ("HashSet", "slice")]
        ok_push = p.args[1] == node and p.guard in want_guards and all(not w.reaches(r.bb, p.bb) for r in rec)
    obs.append(Ob("R01.preorder", WALKER, "the node itself is pushed first, iff its kind is requested", ok_push,
                  expected="one push(matches, node) guarded exactly by targets.contains(node.as_target()), before any recursion",
                  found=[(show(p.args[1]), S.guard_str(p.guard)) for p in pushes]))
    flowing = 0
    for r in rec:
        res = r.result
        ap = [a for a in appends if len(a.args) == 2 and a.args[1] == res and w.dominates(r.bb, a.bb) and a.guard == r.guard]
        uses = [s for s in sites if s is not r and any(T.contains(x, res) for x in s.args)]
        ew = elementwise.get(id(r))
        if len(ap) == 1 and len(uses) == 1:
            flowing += 1
        elif ew and not ap and len(uses) == 2 and all(u is ew[0] or u.bb == ew[1].site.bb for u in uses):
            flowing += 1
        else:
            obs.append(Ob("R01.preorder", WALKER, "result of a recursive call appended once", False, site=r.where,
                          expected="matches.append(&mut walk(..)) and no other use", found="appends=%d uses=%d" % (len(ap), len(uses))))
    appends = [a for a in appends if a not in carrier_appends]
    obs.append(Ob("R01.preorder", WALKER, "every recursive result is appended to the result list", flowing == len(rec) and len(appends) + len(elementwise) == len(rec),
                  expected="%d appends" % len(rec), found="%d appended, %d append sites, %d element-wise" % (flowing, len(appends), len(elementwise))))
    obs.append(Ob("R01.preorder", WALKER, "no other mutation of the result list", not other_mut, found=[s.path for s in other_mut] or "none"))
    obs.append(Ob("R01.preorder", WALKER, "the result list is returned", T.is_call(matches, "new") or matches[0] in ("call", "agg"), found=show(matches)[:60]))
    ret_defs = S.def_table(w, 0)
    obs.append(Ob("R01.preorder", WALKER, "single result object", len(ret_defs) == 1, found=len(ret_defs)))
    # ------------------------------------------------------------ R01.tables
    as_target = crate.bodies.get("analyzer::ast::Node::as_target")
    if as_target is None:
        obs.append(Ob("R01.tables", "analyzer::ast::Node::as_target", "anchor missing", False))
    else:
        disp = {}
        for g, v in S.ret_table(as_target):
            vs = S.variant_of_guard(g)
            if vs and len(vs) == 1:
                disp[vs[0]] = v
        for wrapper in tree.wrappers:
            v = disp.get(wrapper)
            if wrapper == "SourceUnit":
                ok = v is not None and v[0] == "agg" and v[2].endswith("Target::SourceUnit")
                obs.append(Ob("R01.tables", as_target.path, "SourceUnit has its own kind", ok, found=show(v) if v else None))
                continue
            ok = v is not None and v[0] == "call" and v[1] == TABLES[wrapper] and v[2] and \
                v[2][0] == core.mk_proj(core.mk_proj(("param", 1), ("dc", wrapper)), ("f", 0, "0"))
            obs.append(Ob("R01.tables", as_target.path, "%s nodes are classified by %s" % (wrapper, TABLES[wrapper].rsplit("::", 1)[-1]), ok,
                          found=show(v)[:80] if v else None))
    kinds_by_table = {}
    for wrapper, fn in TABLES.items():
        b = crate.bodies.get(fn)
        if b is None:
            obs.append(Ob("R01.tables", fn, "anchor missing", False))
            continue
        ntype = tree.wrappers[wrapper]
        vs, _ = tree.variants(ntype)
        tab = {}
        catch_all = None
        for g, v in S.ret_table(b):
            names = S.variant_of_guard(g)
            tname = v[2].rsplit("::", 1)[-1] if v[0] == "agg" else show(v)
            if names is None:
                # catch-all arm: single negative atom
                catch_all = tname
                continue
            for nme in names:
                tab[nme] = tname
        inv = defaultdict(list)
        for v in vs:
            t = tab.get(v["name"], catch_all)
            if t is None:
                obs.append(Ob("R01.tables", fn, "%s is classified" % v["name"], False))
                continue
            inv[t].append(v["name"])
            is_bucket = v["name"] not in tab
            obs.append(Ob("R01.tables", fn, "%s::%s has its own kind" % (wrapper, v["name"]), is_bucket or t == v["name"],
                          expected="kind %s" % v["name"], found="catch-all %s" % t if is_bucket else t))
        for t, names in inv.items():
            if len(names) > 1 and t != catch_all:
                obs.append(Ob("R01.tables", fn, "kind %s is shared by %s" % (t, "/".join(names)), False, expected="injective table"))
        kinds_by_table[wrapper] = (tab, catch_all, inv)
    # the catch-all bucket may not be requested by any search
    ctx.analysed.setdefault("C01_tables", {})[crate.ctype] = {w_: {"entries": len(kinds_by_table[w_][0]), "catch_all": kinds_by_table[w_][1],
                                                                  "bucket": kinds_by_table[w_][2].get(kinds_by_table[w_][1], [])} for w_ in kinds_by_table}
    # cross-table sharing only between the two definition-level tables, for equally named variants
    if "Statement" in kinds_by_table and "Expression" in kinds_by_table:
        st = set(kinds_by_table["Statement"][0].values())
        ex = set(kinds_by_table["Expression"][0].values())
        df = set(kinds_by_table.get("SourceUnitPart", ({}, None, {}))[0].values()) | set(kinds_by_table.get("ContractPart", ({}, None, {}))[0].values())
        # Statement::Expression / Expression::... names may coincide by design only if variant names coincide; kinds must not be shared across levels
        shared = (st & ex) | (st & df) | (ex & df)
        shared -= {"VariableDefinition"}  # Statement::VariableDefinition and the definition-level VariableDefinition share a name by design
        obs.append(Ob("R01.tables", "analyzer::ast", "kinds are not shared between statement / expression / definition tables", not shared,
                      found=sorted(shared) or "none"))
    # ------------------------------------------------------------ R01.entry
    e1 = crate.bodies.get(ENTRY1)
    en = crate.bodies.get(ENTRYN)
    for b, multi in ((e1, False), (en, True)):
        if b is None:
            obs.append(Ob("R01.entry", ENTRY1 if not multi else ENTRYN, "anchor missing", False))
            continue
        ss = S.call_sites(b)
        walks = [s for s in ss if s.path == WALKER]
        ins = [s for s in ss if s.path.endswith("::insert") and "HashSet" in s.path]
        if len(walks) == 1 and not ins:
            # the kinds are handed on as a list: `&[target]` / `&targets` (the vector itself, as a slice)
            wk = walks[0]
            st = wk.args[0]
            while st[0] == "call" and st[1].rsplit("::", 1)[-1] in ("deref", "as_slice", "as_ref", "borrow") and len(st[2]) == 1:
                st = st[2][0]
            if st[0] == "obj":
                st = st[2]
            if multi:
                lst = st == ("param", 1)
            else:
                lst = st[0] == "agg" and st[1] == "array" and tuple(st[3]) == (("param", 1),)
            ok = bool(lst) and wk.args[1] == ("param", 2) and b.val_local(0) == wk.result and not b.loops_of(wk.bb) and wk.guard == [[]]
            obs.append(Ob("R01.entry", b.path, "requested kinds inserted, walker called once on the unmodified node, its result returned", ok,
                          found="walk(%s, %s) [list of kinds]" % (show(wk.args[0])[:40], show(wk.args[1]))))
            obs.append(Ob("R01.entry", b.path, "set of kinds is built from the argument only", bool(lst), found=show(st)[:60]))
            continue
        ok = len(walks) == 1 and len(ins) == 1
        detail = ""
        if ok:
            wk = walks[0]
            st = wk.args[0]
            ok = ins[0].args[0] == st and wk.args[1] == ("param", 2) and b.val_local(0) == wk.result and not b.loops_of(wk.bb)
            if multi:
                ok = ok and ins[0].args[1] == ("elem", ("param", 1)) and len(b.loops_of(ins[0].bb)) == 1 and (ins[0].guard in ([[]],))
            else:
                ok = ok and ins[0].args[1] == ("param", 1) and ins[0].guard == [[]]
            others = [s for s in ss if s.args and s.args[0] == st and s not in ins and s is not wk and not s.path.endswith("::new")]
            ok = ok and not others
            detail = "insert(%s), walk(%s, %s)" % (show(ins[0].args[1]), show(wk.args[0])[:30], show(wk.args[1]))
        obs.append(Ob("R01.entry", b.path, "requested kinds inserted, walker called once on the unmodified node, its result returned", ok, found=detail))
        obs.append(Ob("R01.entry", b.path, "set of kinds is built from the argument only", len(ins) == 1, found=len(ins)))
    return obs
