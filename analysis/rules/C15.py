"""C15 — each (file, pattern) verdict is independent of everything else in the run (DESIGN 5/C15)."""
from runner import Ob
from rules import depend
import sites as S
import terms as T
import order as O
from core import show
from rules import detectors as D
from rules import dirwalk

META = {
    "level": "other",
    "rule": "one obligation per static item, per effectful callee class in the analysis call graph, per use of the file index, per unordered loop inside "
            "detectors, per argument of the per-file call; non-trivial = obligations about a concrete site (uses, loops, arguments)",
    "explanation": "Purity of everything reachable from analyze_for_*: R15.globals (no static / thread_local / unsafe in the local crates), R15.effects (no fs, env, time, "
                   "rand, process, net, thread callee), R15.fileno (the file index flows only into argument 2 of solang_parser::parse; Loc's file field and "
                   "file_no/try_file_no are never read), R15.order (hash-ordered iteration inside detectors feeds only order-insensitive sinks, no early exit), "
                   "R15.perfile (the per-file call receives only this file's content, the index and the pattern), R15.retain (the accumulator of analyze_dir and the lists in it are only the receiver of grow-only operations, so what was recorded for one file survives the processing of every other entry). A function of its arguments only, with no shared "
                   "state, gives the same result under any co-selection, repetition or thread interleaving.",
    "assumptions": ["solang_parser::parse and regex are pure functions of their arguments (dependency code is not analysed)"],
    "floors": {"R15.effects": 3, "R15.fileno": 3, "R15.perfile": 3, "R15.order": 10, "R15.siblings": 3, "R15.retain": 3, "R15.render": 3, "R15.position": 1},
}

EFFECT_PREFIXES = ("std::fs::", "std::env::", "std::time::", "std::process::", "std::net::", "std::thread::", "std::io::", "rand::", "std::sync::",
                   "std::cell::", "std::os::", "std::path::Path::is_", "std::path::Path::exists", "std::path::Path::metadata", "std::path::Path::read_dir")


OUTPUT_ONLY = ("std::io::_print", "std::io::_eprint")  # progress / diagnostic text on stdout / stderr: written, never read back, so no verdict can depend on it


def run(ctx, crate):
    obs = []
    # R15.globals
    if crate.statics:
        lazy = set(crate.data.get("lazy_statics") or [])
        for st in crate.statics:
            bad = st["mut"] or not st["freeze"] or st["thread_local"]
            if bad and not st["mut"] and not st["thread_local"] and st["path"] in lazy:
                # a constant computed on first use: created empty, only ever accessed through get_or_init with a closure that captures nothing, so every
                # access yields the value of that closed expression (which the rules see in place of the access)
                obs.append(Ob("R15.globals", st["path"], "static item is a lazily computed constant (OnceLock / OnceCell filled by a closure without captures)", True,
                              expected="no shared mutable state", found=st["ty"], nontrivial=True))
                continue
            obs.append(Ob("R15.globals", st["path"], "static item%s" % (" (mutable / interior-mutable / thread-local)" if bad else ""), not bad,
                          expected="no shared mutable state", found=st["ty"]))
    obs.append(Ob("R15.globals", crate.name, "static items in the crate: %d" % len(crate.statics), True, nontrivial=False))
    unsafe = [b.path for b in crate.bodies.values() if b.b.get("unsafe")]
    unsafe_calls = []
    for b in crate.bodies.values():
        if b.derived:
            continue
        for s in S.call_sites(b):
            if s.fn and s.fn.get("unsafe") and not s.exp and not s.path.endswith("box_assume_init_into_vec_unsafe"):
                unsafe_calls.append("%s in %s" % (s.path, b.path))
    obs.append(Ob("R15.globals", crate.name, "no unsafe code", not unsafe and not unsafe_calls, found=(unsafe + unsafe_calls) or "none"))
    # call graph from analyze_for_*
    disp = D.all_dispatch(crate)
    roots = [d.body for d in disp.values() if d.ok]
    if len(roots) != 3:
        obs.append(Ob("R15.effects", "analyze_for_*", "three per-file entry points present", False, found=[d.path for d in disp.values() if d.ok]))
    reach = S.reachable_bodies(crate, roots)
    ctx.analysed.setdefault("C15", {})[crate.ctype] = {"reachable_bodies": len(reach)}
    eff = []
    for b in reach.values():
        for s in S.call_sites(b):
            for p in {s.path, s.resolved}:
                if p.startswith(EFFECT_PREFIXES) and p not in OUTPUT_ONLY:
                    eff.append((b, s, p))
        # statics accessed
    for (b, s, p) in eff:
        obs.append(Ob("R15.effects", b.path, "effectful callee %s in analysis code" % p, False, site=s.where,
                      expected="analysis is a pure function of the file content"))
    for d in disp.values():
        if d.ok:
            obs.append(Ob("R15.effects", d.path, "call graph of %d bodies free of fs/env/time/rand/process/thread/sync callees" % len(S.reachable_bodies(crate, [d.body])),
                          not [e for e in eff], nontrivial=True))
    # R15.fileno
    for d in disp.values():
        if not d.ok:
            continue
        b = d.body
        uses = []
        for s in d.sites:
            for i, a in enumerate(s.args):
                if T.contains_outside(a, ("param", 2), D.PARSE):
                    uses.append((s, i))
        ok = len(uses) == 1 and uses[0][0].path == D.PARSE and uses[0][1] == 1
        # also no other use in statements (arithmetic etc.): param 2 appears in any value term of a switch / assign
        other = []
        for bb in b.reach:
            t = b.blocks[bb]["term"]
            if t["k"] == "switch" and T.contains_outside(b.val_operand(t["d"]), ("param", 2), D.PARSE):
                other.append("switch at line %d" % b.blocks[bb]["tloc"]["line"])
        obs.append(Ob("R15.fileno", d.path, "the file index flows only into the parser's file-number argument", ok and not other,
                      expected="single use: solang_parser::parse(text, index)", found=[(u[0].path, u[1]) for u in uses] + other))
    for b in reach.values():
        for s in S.call_sites(b):
            if s.path.endswith(("Loc::file_no", "Loc::try_file_no")):
                obs.append(Ob("R15.fileno", b.path, "reads the file number of a location", False, site=s.where))
        # projections into Loc::File field 0
        for bb in b.reach:
            for st in b.blocks[bb]["stmts"]:
                if st["k"] != "assign":
                    continue
                for pl in _places(st):
                    pr = pl["pr"]
                    for i, e in enumerate(pr):
                        if isinstance(e, dict) and e.get("dc") == "File" and i + 1 < len(pr) and isinstance(pr[i + 1], dict) and pr[i + 1].get("f") == 0 \
                                and not b.derived:
                            obs.append(Ob("R15.fileno", b.path, "reads field 0 (file number) of Loc::File", False, site="%s:%d" % (b.file, st["loc"]["line"])))
    # R15.order
    det = D.detector_bodies(crate)
    for b in det.values():
        if b.derived:
            continue
        for lp in O.loops_of_body(b):
            if lp.order == "ordered":
                obs.append(Ob("R15.order", b.path, "ordered loop over %s" % show(lp.iterable)[:70], True, site=lp.site.where, nontrivial=False))
                continue
            import re as _re
            param_iter = _re.match(r"^<[A-Z]\w* as std::iter::IntoIterator>::IntoIter$", lp.self_ty or "") or _re.match(r"^[A-Z]\w*$", lp.self_ty or "")
            if lp.order == "unknown" and not param_iter:
                obs.append(Ob("R15.order", b.path, "iterator of unknown order class %s" % lp.self_ty.split("<")[0], False, site=lp.site.where))
                continue
            # (the iterator of a type parameter is judged like an unordered one: whatever the caller hands in, the loop must not depend on its order)
            normal, extra = lp.exits()
            bad = []
            for (x, t) in extra:
                bad.append("early exit at line %d" % b.blocks[x]["tloc"]["line"])
            for s in S.call_sites(b):
                if s.bb in lp.blocks and s.path in O.ORDERED_SINKS and s.args:
                    root = O.root_object(s.args[0])
                    cb = O.creation_block(b, root)
                    if cb is not None and cb in lp.blocks:
                        continue
                    if root[0] == "const":
                        continue
                    bad.append("%s on %s" % (s.path.rsplit("::", 1)[-1], show(root)[:50]))
            obs.append(Ob("R15.order", b.path, "hash-ordered loop over %s is order-insensitive" % show(lp.iterable)[:70], not bad, site=lp.site.where,
                          expected="only set/map inserts and removals, no early exit", found=bad or "insensitive sinks only"))
    # R15.perfile
    for w in dirwalk.walks(crate):
        if not w.ok or len(w.analyze) != 1:
            obs.append(Ob("R15.perfile", w.path, "one per-file analysis call", False))
            continue
        a = w.analyze[0]
        ok = len(a.args) == 3 and not any(T.contains(x, w.acc) for x in a.args) \
            and not any(T.contains(x, a.result) for x in a.args) \
            and a.args[2] == ("elem", w.pat) and w.reads and T.contains(a.args[0], w.reads[0].result) \
            and a.args[1][0] == "idx"
        obs.append(Ob("R15.perfile", w.path, "the per-file call sees only this file's content, the index and the pattern", ok, site=a.where,
                      found=[show(x)[:70] for x in a.args]))
        edited = S.mutable_borrows_of_result(w.body, a)
        obs.append(Ob("R15.perfile", w.path, "what is recorded for (file, pattern) is what the per-file call returned: the result is not edited afterwards", not edited,
                      site=a.where, expected="no `&mut` of the result between the analysis call and the push",
                      found=("mutable borrow at line(s) %s" % edited) if edited else "unmodified",
                      example="lines removed from a pattern's result by a step that keeps state from the patterns analysed before it"))
    # R15.siblings: whether a file is analysed does not depend on the other entries of its directory
    for w in dirwalk.walks(crate):
        if not w.ok or len(w.analyze) != 1 or not w.reads:
            continue
        b = w.body
        early = []
        for lp in dirwalk.relevant_loops(w):
            normal, extra = lp.exits()
            early += [b.blocks[x]["tloc"]["line"] for (x, t) in extra]
        a = w.analyze[0]
        p = w.reads[0].args[0]
        g = S.block_guard(b, a.bb, {p: "p"}) or []
        foreign = sorted(set(at for c in g for at in c if "p" not in at.replace("Path", "").replace("param", "") and "arg2[*]" not in at and "(p)" not in at and "p)" not in at))
        obs.append(Ob("R15.siblings", w.path, "a file's analysis does not depend on the other entries of its directory", not early and not foreign,
                      expected="no early exit from the listing loop; the decision to analyse mentions only the entry itself",
                      found=("early exit at line(s) %s" % sorted(set(early))) if early else (foreign or "entry-local"),
                      example="a *.t.sol file listed before a contract"))
    # R15.retain: what is already recorded for a file is never removed or altered while other entries of the run are processed: the accumulator and the
    # lists stored in it are used only as the receiver of grow-only operations (never handed over as a source to drain, never cleared / truncated / overwritten)
    for w in dirwalk.walks(crate):
        if not w.ok:
            continue
        bad = []
        n = 0
        for s in w.sites:
            for i, a in enumerate(s.args or []):
                if not (a == w.acc or O.root_object(a) == w.acc):
                    continue
                n += 1
                name = s.path.rsplit("::", 1)[-1]
                if i == 0 and (s.path.endswith(GROW) or name in READ_ONLY):
                    continue
                if getattr(w, "style", "") == "accumulator" and (s.resolved == w.walker_path or s.path == w.walker_path) and i == int(w.acc_param[1]) - 1 and a == w.acc:
                    continue  # handed on to the nested walk, which is this same function
                bad.append("argument %d of %s at line %s" % (i, short(s.path), s.where.rsplit(":", 1)[-1]))
        obs.append(Ob("R15.retain", w.path, "findings recorded for earlier files are only added to (accumulator used as receiver of grow-only operations)",
                      not bad and n > 0 and w.acc[0] != "phi", expected="entry / or_insert / push / append / extend with the accumulator as receiver",
                      found=bad or "%d uses, all grow-only" % n,
                      example="dir/A.sol listed before dir/sub/: the merge of sub's findings must leave A.sol's in place"))
    # a file is analysed whatever its position in the listing and whatever is listed before it (C16's whole-listing obligations)
    obs.append(depend.inherited(ctx, crate, "R15.position", "analyze_dir x3", "every entry of a listing is considered, whatever precedes it (C16's obligations on the loop over the listing)",
                                "C16", lambda o: o.rule in ("R16.loops", "R16.before"), example="the same file listed first, or after a hidden entry"))
    obs.append(depend.inherited(ctx, crate, "R15.parts", "report::generation::generate_report", "a category's part depends on that category's findings only (C12's obligations)",
                                "C12", lambda o: o.rule == "R12.category", example="vulnerabilities selected together with optimizations = []"))
    # a file's entries survive rendering whatever other files are reported: the generators render every (file, lines) pair they are handed (C11's loop obligations)
    for gen in ("report::optimization_report::generate_optimization_report", "report::vulnerability_report::generate_vulnerability_report", "report::qa_report::generate_qa_report"):
        obs.append(depend.inherited(ctx, crate, "R15.render", gen, "every (file, lines) pair is rendered, whatever other files are listed with it (C11's loop obligations)",
                                    "C11", lambda o, gen=gen: o.rule == "R11.entries" and o.fn == gen and o.detail.startswith("loops"),
                                    example="two files with the same base name in different directories"))
    return obs


GROW = ("::entry", "::or_insert", "::or_insert_with", "::or_default", "::push", "::append", "::extend", "::extend_from_slice")
READ_ONLY = ("len", "iter", "is_empty", "deref", "clone", "get", "contains_key", "keys", "values")


def short(p):
    return "::".join(p.split("<")[0].rstrip(":").split("::")[-2:]) if "<" in p else "::".join(p.split("::")[-2:])


def _places(x):
    if isinstance(x, dict):
        if "l" in x and "pr" in x:
            yield x
        for v in x.values():
            yield from _places(v)
    elif isinstance(x, list):
        for v in x:
            yield from _places(v)
