"""C18 — a run only reads its inputs and writes one report file (DESIGN 5/C18)."""
from runner import Ob
from rules import depend
import core
import sites as S
import terms as T
from core import show

META = {
    "level": "other",
    "rule": "one obligation per call site of both local crates whose callee lives under std::fs / std::io / "
            "std::process / std::env / std::net / std::os / std::path (effect inventory), plus the path-shape "
            "obligations of the single write; non-trivial = the callee is an effectful API (not a pure path accessor)",
    "explanation": "Effect inventory over the resolved MIR of every body of the library and the binary crate: "
                   "R18.inventory (write-capable callees = exactly one fs::write whose path operand is the literal "
                   "solstat_report.md), R18.once (that call lies on every entry-to-return path of generate_report, outside "
                   "any loop, generate_report lies on every path through main after all analysis calls, and no diverging call (process::exit, panic) is reachable in main "
                   "between the first analysis call and generate_report), "
                   "R18.readonly (analysis code uses only read_dir / read_to_string / is_dir and pure path accessors), "
                   "R18.name (the report name does not end in .sol, so an old report is never an input: with C16).",
    "assumptions": [
        "std::fs::write creates or truncates the file (std contract); not decided here",
        "dependencies (clap, toml, regex, solang_parser) perform no file-system writes (not analysed)",
    ],
    "floors": {"R18.inventory": 8, "R18.once": 4, "R18.stale": 1},
    "trusted_base": [],
}

PREFIXES = ("std::fs::", "std::io::", "std::process::", "std::env::", "std::net::", "std::os::", "std::path::",
            "std::thread::", "std::time::", "std::sync::")
READ_ONLY = {
    "std::fs::read_dir", "std::fs::read_to_string", "std::fs::read", "std::fs::metadata", "std::fs::symlink_metadata",
    "std::fs::DirEntry::path", "std::fs::DirEntry::file_name", "std::fs::DirEntry::file_type", "std::fs::DirEntry::metadata",
    "std::fs::File::open", "std::fs::canonicalize", "std::fs::read_link", "std::fs::exists",
    "std::path::Path::is_dir", "std::path::Path::is_file", "std::path::Path::exists", "std::path::Path::metadata",
    "std::path::Path::read_dir", "std::path::Path::try_exists", "std::path::Path::canonicalize",
}
PURE = {
    "std::path::Path::file_name", "std::path::Path::as_os_str", "std::path::Path::extension", "std::path::Path::to_str",
    "std::path::Path::new", "std::path::Path::join", "std::path::Path::to_path_buf", "std::path::Path::parent",
    "std::path::Path::file_stem", "std::path::Path::display", "std::path::Path::to_string_lossy", "std::path::Path::ends_with",
    "std::path::Path::starts_with", "std::path::Path::components", "std::path::Path::is_absolute", "std::path::Path::is_relative",
    "std::path::PathBuf::from", "std::path::PathBuf::new", "std::path::PathBuf::push", "std::path::PathBuf::as_path",
    "std::path::PathBuf::into_os_string",
}
PROCESS_OK = {"std::process::exit"}
ENV_READ = {"std::env::args", "std::env::args_os", "std::env::var", "std::env::var_os", "std::env::current_dir", "std::env::vars"}


def classify(path):
    if path in PURE:
        return "pure"
    if path in READ_ONLY:
        return "read"
    if path in PROCESS_OK:
        return "exit"
    if path in ENV_READ:
        return "envread"
    if path.startswith("std::fs::") or path.startswith("std::process::") or path.startswith("std::os::") or path.startswith("std::net::"):
        return "write"  # anything else under fs/process/os/net is treated as write-capable
    if path.startswith("std::env::"):
        return "write"  # set_var, set_current_dir, remove_var ...
    if path in ("std::io::_print", "std::io::_eprint"):
        return "pure"  # text on the process's standard streams: not a file of the analysed tree or of the working directory, and never read back
    if path.startswith("std::io::"):
        return "io"
    return "other"


def run(ctx, crate):
    obs = []
    # a report left in the analysed tree by an earlier run is just another non-Solidity file: it is skipped and does not stop the walk (C16's filter obligations)
    obs.append(depend.inherited(ctx, crate, "R18.stale", "analyze_dir x3", "a report left in the analysed directory is inert for the next run (C16's filter and whole-listing obligations)",
                                "C16", lambda o: o.rule in ("R16.filter", "R16.loops", "R16.before", "R16.siblings"),
                                example="two runs with the working directory inside the analysed tree"))
    # the only directory a run may look at besides its inputs is the default ./contracts, and only when that IS the input (no --path, no path
    # from a configuration file): probing it (and exiting) in any other situation makes the outcome depend on an unrelated directory
    on = crate.bodies.get("opts::Opts::new")
    if on is not None:
        for s in S.call_sites(on):
            if s.path.startswith(("std::fs::", "std::path::Path::")) and s.args and any(x == ("const", "str", "./contracts") or (x[0] == "obj" and x[2] == ("const", "str", "./contracts"))
                                                                                    for a in s.args for x in T.subterms(a)):
                g = S.block_guard(on, s.bb) or []
                ok = bool(g) and all(any(a.startswith("!") and "Parser::parse().path" in a for a in c) and any(a.startswith("!") and "toml" in a for a in c) for c in g)
                obs.append(Ob("R18.inputs", on.path, "the default directory ./contracts is looked at only when it is the directory to analyse", ok, site=s.where,
                              expected="guarded by: no --path and no path from a configuration file", found=S.guard_str(g)[-200:],
                              example="solstat --toml cfg.toml (cfg sets path) run from a directory without ./contracts"))
    if on is not None:
        # what the options resolver may look at in the file system: the configuration file it was pointed to and the default directory; anything else
        # (the working directory's listing, ./src, ..) lets files that are no input — a report from the previous run — steer the run
        strangers = []
        n_fs = 0
        for s in S.call_sites(on):
            if not (s.path.startswith("std::fs::") or s.path in ("std::path::Path::exists", "std::path::Path::is_dir", "std::path::Path::is_file", "std::path::Path::read_dir",
                                                                    "std::path::Path::metadata", "std::env::current_dir")):
                continue
            n_fs += 1
            a0 = s.args[0] if s.args else ("unknown", "")
            names_contracts = any(x == ("const", "str", "./contracts") or (x[0] == "obj" and x[2] == ("const", "str", "./contracts")) for x in T.subterms(a0))
            names_toml = any(x[0] == "proj" and x[2][0] == "f" and len(x[2]) > 2 and x[2][2] == "toml" for x in T.subterms(a0))
            if not (names_contracts or names_toml):
                strangers.append("%s(%s) at line %d" % (core.short_fn(s.path), show(a0)[:50], s.line))
        obs.append(Ob("R18.inputs", on.path, "resolving the options looks at nothing but the configuration file and ./contracts", not strangers and n_fs > 0,
                      expected="fs accesses of Opts::new name --toml's file or the literal ./contracts", found=strangers or "%d accesses, all of these two" % n_fs,
                      example="a plain `solstat` run in a directory that already holds solstat_report.md"))
    writes = []
    inv = []
    for b in crate.bodies.values():
        for s in S.call_sites(b):
            for p in {s.path, s.resolved}:
                if p.startswith(PREFIXES):
                    inv.append((b, s, p))
                    break
    ctx.analysed.setdefault("fs_inventory", {})[crate.ctype] = sorted(set("%s <- %s" % (p, b.path) for (b, s, p) in inv))
    for (b, s, p) in inv:
        c = classify(p)
        if c == "write":
            writes.append((b, s, p))
        if c == "io" and not s.exp:
            obs.append(Ob("R18.inventory", b.path, "io call %s" % p, False, site=s.where,
                          expected="no std::io use outside macro expansions", found=p))
            continue
        obs.append(Ob("R18.inventory", b.path, "%s %s" % (c, p), True, site=s.where, nontrivial=(c != "pure")))
    # exactly one write: fs::write(literal "solstat_report.md", ..)
    good = []
    def const_path(t):
        # the literal itself, possibly wrapped by pure path/string conversions
        while t[0] == "call" and t[1] in ("std::path::Path::new", "std::path::PathBuf::from", "std::convert::AsRef::as_ref", "std::ffi::OsStr::new") and len(t[2]) == 1:
            t = t[2][0]
        if t[0] == "obj":
            t = t[2]
        return t

    for (b, s, p) in writes:
        if s.args:
            s._args = [const_path(s.args[0])] + list(s.args[1:])
        ok = p == "std::fs::write" and s.args and s.args[0] == ("const", "str", "solstat_report.md")
        if ok:
            good.append((b, s))
        else:
            arg = show(s.args[0]) if s.args else ""
            obs.append(Ob("R18.write", b.path, "write-capable %s(%s)" % (p, arg if p == "std::fs::write" else ""), False, site=s.where,
                          expected="the only write-capable call is fs::write(\"solstat_report.md\", report)",
                          found="%s(%s)" % (p, arg)))
    if len(good) != 1:
        obs.append(Ob("R18.write", "crate", "number of report writes = %d" % len(good), False,
                      expected="exactly one fs::write(\"solstat_report.md\", ..)", found=[g[1].where for g in good]))
    else:
        b, s = good[0]
        obs.append(Ob("R18.write", b.path, "single report write", True, site=s.where, found="fs::write(\"solstat_report.md\", ..)"))
        name = s.args[0][2]
        obs.append(Ob("R18.name", b.path, "report name is not an input", not name.endswith(".sol") and "/" not in name, site=s.where,
                      expected="constant file name in the working directory, not ending in .sol", found=name))
        ok = S.on_all_paths(b, s.bb) and not S.in_loop(b, s.bb)
        obs.append(Ob("R18.once", b.path, "write on every path, once", ok, site=s.where,
                      expected="the fs::write block lies on every entry-to-return path and in no loop",
                      found="on_all_paths=%s in_loop=%s" % (S.on_all_paths(b, s.bb), S.in_loop(b, s.bb))))
        # the writer is reached exactly once from main (binary crate)
        main = crate.bodies.get("main")
        if main is not None:
            calls = [c for c in S.call_sites(main) if c.resolved == b.path or c.path == b.path]
            ok = len(calls) == 1 and S.on_all_paths(main, calls[0].bb) and not S.in_loop(main, calls[0].bb)
            obs.append(Ob("R18.once", "main", "report generated on every path through main, once", ok,
                          site=calls[0].where if calls else None, expected="one call on every path", found=len(calls)))
            if calls:
                an = [c for c in S.call_sites(main) if c.path.endswith("::analyze_dir")]
                ok = len(an) >= 3 and all(main.dominates(c.bb, calls[0].bb) for c in an)
                obs.append(Ob("R18.once", "main", "analysis precedes the write", ok, site=calls[0].where,
                              expected="three analyze_dir calls dominating generate_report", found=[c.path for c in an]))
                # once analysis has begun, nothing in main ends the run before the report is written: an early exit would leave the report of the
                # previous run in place as if it belonged to this one
                first = [c for c in an if not any(o is not c and main.dominates(o.bb, c.bb) for o in an)]
                outs = []
                if first:
                    seen, st = set(), [first[0].bb]
                    while st:
                        x = st.pop()
                        if x in seen or x == calls[0].bb:
                            continue
                        seen.add(x)
                        t = main.blocks[x]["term"]
                        if t["k"] == "call" and t.get("t") is None:
                            outs.append(S.Site(main, x, t))
                        st.extend(y for (y, _) in main.succ[x])
                obs.append(Ob("R18.once", "main", "no way out of main between the start of analysis and the report", not outs and bool(first),
                              site=outs[0].where if outs else calls[0].where, expected="no diverging call (process::exit, panic) reachable after the first analyze_dir without passing generate_report",
                              found=["%s at line %d under %s" % (core.short_fn(o.path), o.line, S.guard_str(o.guard)[-120:]) for o in outs] or "none",
                              example="a tree with a finding of the guarded kind and an older solstat_report.md in the working directory"))
    # analysis code is read-only
    roots = []
    for suf in ("optimizations::analyze_dir", "vulnerabilities::analyze_dir", "qa::analyze_dir"):
        roots += S.find_bodies(crate, suf)
    reach = S.reachable_bodies(crate, roots)
    for (b, s, p) in inv:
        if b.path in reach and p.startswith(("std::fs::", "std::process::", "std::env::", "std::net::", "std::os::", "std::io::", "std::path::")):
            c = classify(p)
            ok = c in ("pure", "read")
            obs.append(Ob("R18.readonly", b.path, "%s in analysis code" % p, ok, site=s.where,
                          expected="read-only fs access in analysis code", found="%s (%s)" % (p, c)))
    return obs
