"""E5: propositional formulas over canonical atom strings, a small ROBDD, equivalence / implication modulo
the mutual exclusion of `is(path; Variant)` atoms on one path, and counter-model extraction."""
import re

T = ("const", True)
F = ("const", False)


def atom(s):
    return ("atom", s)


def Not(f):
    if f[0] == "const":
        return ("const", not f[1])
    if f[0] == "not":
        return f[1]
    return ("not", f)


def And(*fs):
    out = []
    for f in fs:
        if f == F:
            return F
        if f == T:
            continue
        if f[0] == "and":
            out.extend(f[1])
        else:
            out.append(f)
    if not out:
        return T
    if len(out) == 1:
        return out[0]
    return ("and", tuple(out))


def Or(*fs):
    out = []
    for f in fs:
        if f == T:
            return T
        if f == F:
            continue
        if f[0] == "or":
            out.extend(f[1])
        else:
            out.append(f)
    if not out:
        return F
    if len(out) == 1:
        return out[0]
    return ("or", tuple(out))


def from_dnf(dnf):
    """dnf: list of conjunctions of signed atom strings ('!x' = negative)"""
    if dnf is None:
        return F
    return Or(*[And(*[Not(atom(a[1:])) if a.startswith("!") else atom(a) for a in c]) for c in dnf])


def atoms_of(f, acc=None):
    acc = acc if acc is not None else []
    if f[0] == "atom":
        if f[1] not in acc:
            acc.append(f[1])
    elif f[0] == "not":
        atoms_of(f[1], acc)
    elif f[0] in ("and", "or"):
        for g in f[1]:
            atoms_of(g, acc)
    return acc


def subst_atoms(f, fn):
    """replace atoms by formulas: fn(atom string) -> formula or None"""
    if f[0] == "atom":
        r = fn(f[1])
        return r if r is not None else f
    if f[0] == "not":
        return Not(subst_atoms(f[1], fn))
    if f[0] == "and":
        return And(*[subst_atoms(g, fn) for g in f[1]])
    if f[0] == "or":
        return Or(*[subst_atoms(g, fn) for g in f[1]])
    return f


def rename(f, fn):
    return subst_atoms(f, lambda a: atom(fn(a)))


def show(f):
    if f[0] == "const":
        return "true" if f[1] else "false"
    if f[0] == "atom":
        return f[1]
    if f[0] == "not":
        return "!" + (show(f[1]) if f[1][0] in ("atom", "const") else "(" + show(f[1]) + ")")
    if f[0] == "and":
        return " && ".join(show(g) if g[0] != "or" else "(" + show(g) + ")" for g in f[1])
    if f[0] == "or":
        return " || ".join("(" + show(g) + ")" if g[0] == "and" else show(g) for g in f[1])
    return repr(f)


# ------------------------------------------------------------------ ROBDD


NODE_BUDGET = 1500000  # a comparison that needs more than this is reported as not decided (a check never hangs on a formula)


class TooLarge(Exception):
    pass


class BDD:
    def __init__(self, order):
        self.order = {v: i for i, v in enumerate(order)}
        self.vars = list(order)
        self.unique = {}
        self.nodes = [None, None]  # 0 = False, 1 = True
        self.cache = {}

    def mk(self, var, lo, hi):
        if lo == hi:
            return lo
        key = (var, lo, hi)
        n = self.unique.get(key)
        if n is None:
            if len(self.nodes) > NODE_BUDGET:
                raise TooLarge("formula comparison exceeds %d decision-diagram nodes" % NODE_BUDGET)
            n = len(self.nodes)
            self.nodes.append(key)
            self.unique[key] = n
        return n

    def var(self, v):
        return self.mk(self.order[v], 0, 1)

    def apply(self, op, a, b):
        key = (op, a, b)
        r = self.cache.get(key)
        if r is not None:
            return r
        if a < 2 and b < 2:
            r = int(op(bool(a), bool(b)))
        else:
            va = self.nodes[a][0] if a > 1 else 1 << 30
            vb = self.nodes[b][0] if b > 1 else 1 << 30
            v = min(va, vb)
            a0, a1 = (self.nodes[a][1], self.nodes[a][2]) if va == v else (a, a)
            b0, b1 = (self.nodes[b][1], self.nodes[b][2]) if vb == v else (b, b)
            r = self.mk(v, self.apply(op, a0, b0), self.apply(op, a1, b1))
        self.cache[key] = r
        return r

    def neg(self, a):
        return self.apply(_xor, a, 1)

    def build(self, f):
        k = f[0]
        if k == "const":
            return 1 if f[1] else 0
        if k == "atom":
            return self.var(f[1])
        if k == "not":
            return self.neg(self.build(f[1]))
        if k == "and":
            r = 1
            for g in f[1]:
                r = self.apply(_and, r, self.build(g))
                if r == 0:
                    break
            return r
        if k == "or":
            r = 0
            for g in f[1]:
                r = self.apply(_or, r, self.build(g))
                if r == 1:
                    break
            return r
        raise ValueError(f)

    def any_model(self, n):
        """one satisfying assignment {var: bool} (only the variables on the path)"""
        if n == 0:
            return None
        m = {}
        while n > 1:
            v, lo, hi = self.nodes[n]
            if hi != 0:
                m[self.vars[v]] = True
                n = hi
            else:
                m[self.vars[v]] = False
                n = lo
        return m


def _and(a, b):
    return a and b


def _or(a, b):
    return a or b


def _xor(a, b):
    return a != b


IS_RE = re.compile(r"^is\((.*); ([A-Za-z0-9_]+)\)$")


UNIVERSE = {}  # rendered subject (bound-variable numbers blanked) -> names of all variants of its enum type, filled while formulas are rendered
_TAGNUM = re.compile(r"\[\*(<?)#(\d+|\?)\]")


def universe_key(subject):
    return _TAGNUM.sub("[*#]", subject)


def exclusivity(atoms):
    """axioms: two `is(P; V)` atoms with the same P and different V are never both true"""
    groups = {}
    for a in atoms:
        m = IS_RE.match(a)
        if m:
            groups.setdefault(m.group(1), []).append(a)
    ax = []
    for p, ats in groups.items():
        for i in range(len(ats)):
            for j in range(i + 1, len(ats)):
                ax.append(Not(And(atom(ats[i]), atom(ats[j]))))
        # a value of an enum type is of one of its variants: when every variant is mentioned, one of the atoms holds
        u = UNIVERSE.get(universe_key(p))
        if u and set(IS_RE.match(a).group(2) for a in ats) >= set(u):
            ax.append(Or(*[atom(a) for a in ats if IS_RE.match(a).group(2) in u]))
    # an atom about some element X[*..] of a collection can only hold if the collection is not empty
    LEN_RE = re.compile(r"^gt\(len\((.*)\), 0\)$")
    for a in atoms:
        m = LEN_RE.match(a)
        if not m:
            continue
        coll = m.group(1)
        for o in atoms:
            if o is not a and (coll + "[*") in o:
                ax.append(Or(Not(atom(o)), atom(a)))
    # an atom about P↓V.k.. (something inside the payload of variant V of P) can only hold if P is a V
    for a in atoms:
        m = IS_RE.match(a)
        if not m:
            continue
        inside = m.group(1) + "↓" + m.group(2) + "."
        for o in atoms:
            if o is not a and inside in o:
                ax.append(Or(Not(atom(o)), atom(a)))
    return And(*ax) if ax else T


def compare(code, spec):
    """-> (equivalent, model where they differ or None, which side is true in that model)"""
    ats = atoms_of(spec, atoms_of(code, []))
    bdd = BDD(sorted(ats, key=lambda a: (a.count("↓") + a.count("["), a)))
    try:
        ax = bdd.build(exclusivity(ats))
        c = bdd.build(code)
        s = bdd.build(spec)
        diff = bdd.apply(_and, ax, bdd.apply(_xor, c, s))
    except (TooLarge, RecursionError) as e:
        return False, {"(not decided: %s)" % e: True}, "code"
    if diff == 0:
        return True, None, None
    m = bdd.any_model(diff)
    full = dict(m)
    cv = evaluate(code, full)
    return False, m, "code" if cv else "spec"


def implies(a, b):
    ats = atoms_of(b, atoms_of(a, []))
    bdd = BDD(sorted(ats))
    try:
        ax = bdd.build(exclusivity(ats))
        d = bdd.apply(_and, ax, bdd.apply(_and, bdd.build(a), bdd.neg(bdd.build(b))))
    except (TooLarge, RecursionError) as e:
        return False, {"(not decided: %s)" % e: True}
    if d == 0:
        return True, None
    return False, bdd.any_model(d)


def evaluate(f, m):
    k = f[0]
    if k == "const":
        return f[1]
    if k == "atom":
        return m.get(f[1], False)
    if k == "not":
        return not evaluate(f[1], m)
    if k == "and":
        return all(evaluate(g, m) for g in f[1])
    if k == "or":
        return any(evaluate(g, m) for g in f[1])
    raise ValueError(f)
