"""Detector summaries (DESIGN 4.3): for a function returning a set of locations, every reported term with the
formula (over structured atoms) under which it is reported; predicates (local bool functions) and boolean flags
are expanded through their return / assignment conditions with parameters substituted."""
import core
import sites as S
import terms as T
import boolalg as B
from core import show


def _reads_of(body, local):
    """blocks in which the local is read (as an operand, a switch discriminant, or through a borrow)"""
    out = set()

    def scan(x):
        if isinstance(x, dict):
            if "l" in x and "pr" in x:
                return x["l"] == local
            return any(scan(v) for v in x.values())
        if isinstance(x, list):
            return any(scan(v) for v in x)
        return False
    for i in body.reach:
        blk = body.blocks[i]
        for st in blk["stmts"]:
            if st["k"] == "assign" and scan(st["rv"]):
                out.add(i)
        t = blk["term"]
        if t and any(scan(v) for k, v in t.items() if k != "dest"):
            out.add(i)
    return out


class Unanalysable(Exception):
    pass


class Summ:
    def __init__(self, crate):
        self.crate = crate
        self._ret = {}
        self._flag = {}
        self.notes = []
        self._ntag = 0
        self._guard = {}
        self._exp = {}
        self.tagnum = {}

    # ---------------------------------------------------------------- atoms (structured keys)
    def lit_is(self, subj, variant, universe=None):
        # the optional 4th component names all variants of the subject's type (known where the code switches on it): see boolalg.UNIVERSE
        acc = self._accessor_is(subj, variant)
        if acc is not None:
            return acc
        return B.atom(("is", subj, variant) + ((universe,) if universe else ()))

    def _accessor_shape(self, path):
        """W when the local function `path` is `fn(x) -> Option<..> { match x { W(p) => Some(p), _ => None } }` (Node::expression and its like), else None"""
        cache = self.__dict__.setdefault("_acc_shape", {})
        if path in cache:
            return cache[path]
        w = None
        tb = self.crate.bodies.get(path)
        try:
            if tb is not None and tb.arg_count == 1 and tb.local_ty(0).startswith("std::option::Option<"):
                rows = S.ret_table(tb)
                some = [(g, v) for (g, v) in rows if v[0] == "agg" and v[2].endswith("Option::Some") and len(v[3]) == 1]
                none = [(g, v) for (g, v) in rows if v[0] == "agg" and v[2].endswith("Option::None")]
                if len(rows) == 2 and len(some) == 1 and len(none) == 1:
                    pay = some[0][1][3][0]
                    if pay[0] == "proj" and pay[2][0] == "f" and pay[2][1] == 0 and pay[1][0] == "proj" and pay[1][2][0] == "dc" and pay[1][1] == ("param", 1):
                        cand = pay[1][2][1]
                        if some[0][0] == [["is(arg1; %s)" % cand]] and none[0][0] == [["!is(arg1; %s)" % cand]]:
                            w = cand
        except Exception:
            w = None
        cache[path] = w
        return w

    def _accessor_is(self, subj, variant):
        """`node.expression()?` / `if let Some(e) = node.expression()`: the accessor's result is Some exactly when the node is of that kind"""
        if variant not in ("Some", "None") or subj[0] != "phi" or len(subj[2]) != 2 or not (isinstance(subj[1], tuple) and len(subj[1]) == 2 and subj[1][1] == 0):
            return None
        w = self._accessor_shape(subj[1][0])
        if w is None:
            return None
        some = [m for m in subj[2] if m[0] == "agg" and m[2].endswith("Option::Some") and len(m[3]) == 1]
        none = [m for m in subj[2] if m[0] == "agg" and m[2].endswith("Option::None")]
        if len(some) != 1 or len(none) != 1:
            return None
        x = some[0][3][0]
        if not (x[0] == "proj" and x[2][0] == "f" and x[2][1] == 0 and x[1][0] == "proj" and x[1][2] == ("dc", w)):
            return None
        n = x[1][1]
        f = None
        # what a search for kinds that only nodes of this type can have returns is of this type (R01.tables: the kind tables are injective and agree in name)
        e = n
        if e[0] == "elem":
            src = e[1][1] if e[1][0] == "iter" else e[1]
            if src[0] == "call" and src[1] in core.SEARCH_FNS and len(src[2]) == 2:
                kinds = core.search_kinds(src[2][0])
                wr = self._kind_wrappers()
                if kinds and wr and all(wr.get(k_) == {w} for k_ in kinds):
                    f = B.T
        if f is None:
            f = B.atom(("is", n, w))
        return f if variant == "Some" else B.Not(f)

    def _kind_wrappers(self):
        """{Target kind: set of Node wrappers whose payload type has a variant classified as that kind} from Node::as_target's table"""
        cache = self.__dict__.get("_kind_wr")
        if cache is not None:
            return cache
        out = {}
        try:
            at = self.crate.bodies.get("analyzer::ast::Node::as_target")
            if at is not None:
                for g, v in S.ret_table(at):
                    vs = S.variant_of_guard(g)
                    if not vs or len(vs) != 1:
                        out = {}
                        break
                    wrapper = vs[0]
                    if v[0] == "agg" and v[1] == "adt" and "::Target::" in v[2]:
                        out.setdefault(v[2].rsplit("::", 1)[-1], set()).add(wrapper)
                    elif v[0] == "call" and v[1] in self.crate.bodies:
                        for _g2, v2 in S.ret_table(self.crate.bodies[v[1]]):
                            if v2[0] == "agg" and v2[1] == "adt" and "::Target::" in v2[2]:
                                out.setdefault(v2[2].rsplit("::", 1)[-1], set()).add(wrapper)
                            else:
                                raise ValueError("unclassified row")
                    else:
                        out = {}
                        break
        except Exception:
            out = {}
        self.__dict__["_kind_wr"] = out
        return out

    def bool_formula(self, body, t, depth=0):
        """formula of a boolean-valued term"""
        if depth > 12:
            raise Unanalysable("predicate nesting too deep")
        k = t[0]
        if k == "const" and t[1] == "bool":
            return B.T if t[2] else B.F
        if k == "un" and t[1] == "Not":
            return B.Not(self.bool_formula(body, t[2], depth + 1))
        if k == "is":
            if t[1][0] == "opt":
                return B.T
            return self.lit_is(t[1], t[2])
        if k == "bin":
            op, a, b = t[1], t[2], t[3]
            if op in ("Eq", "Ne"):
                a = a[2] if a[0] == "obj" else a
                b = b[2] if b[0] == "obj" else b

                def boolish(x):
                    return (x[0] == "const" and x[1] == "bool") or (x[0] == "phi" and x[2] and all(m[0] == "const" and m[1] == "bool" for m in x[2]))
                if boolish(a) or boolish(b):
                    # comparison of two booleans (`starts_with(..) != expected` with `expected` chosen by a match): equivalence / exclusive or
                    fa, fb = self.bool_formula(body, a, depth + 1), self.bool_formula(body, b, depth + 1)
                    same = B.Or(B.And(fa, fb), B.And(B.Not(fa), B.Not(fb)))
                    return same if op == "Eq" else B.Not(same)
            if a[0] == "const" and b[0] != "const":
                a, b = b, a
                op = {"Lt": "Gt", "Gt": "Lt", "Le": "Ge", "Ge": "Le"}.get(op, op)
            elif op in ("Eq", "Ne") and a[0] != "const" and b[0] != "const" and show(b) < show(a):
                a, b = b, a
            neg = False
            if op == "Ne":
                op, neg = "Eq", True
            elif op == "Le":
                op, neg = "Gt", True
            elif op == "Lt":
                op, neg = "Ge", True
            # lengths are unsigned: len == 0  <=>  !(len > 0) ;  len >= 1  <=>  len > 0
            if a[0] == "len" and b == ("const", "int", 0) and op == "Eq":
                op, neg = "Gt", not neg
            elif a[0] == "len" and b == ("const", "int", 1) and op == "Ge":
                op, b = "Gt", ("const", "int", 0)
            f = B.atom(("rel", op, a, b))
            return B.Not(f) if neg else f
        if k == "call" and t[1] in ("std::cmp::PartialOrd::lt", "std::cmp::PartialOrd::le") and len(t[2]) == 2 and not self._float_cmp(t):
            # total orders (integers, tuples and strings of them): a < b  <=>  !(a >= b) ;  a <= b  <=>  !(a > b)
            dual = "std::cmp::PartialOrd::ge" if t[1].endswith("::lt") else "std::cmp::PartialOrd::gt"
            return B.Not(B.atom(("pred", ("call", dual, t[2], None))))
        if k == "call" and t[1] in ("std::cmp::PartialOrd::ge", "std::cmp::PartialOrd::gt") and len(t[2]) == 2:
            return B.atom(("pred", ("call", t[1], t[2], None)))
        if k == "call" and t[1].endswith("::contains_key") and len(t[2]) == 2 and "Map" in t[1]:
            # map.contains_key(k)  <=>  map.get(k) is Some
            return self.lit_is(("call", t[1][: -len("contains_key")] + "get", t[2], None), "Some")
        if k == "call" and t[1].endswith(("<impl [T]>::contains", "Vec::<T, A>::contains")) and len(t[2]) == 2 and t[2][0][0] == "agg" and t[2][0][1] == "array" \
                and t[2][0][2] != "repeat":
            # membership in a literal list: one equality per element
            return B.Or(*[self.bool_formula(body, ("bin", "Eq", t[2][1], c), depth + 1) for c in t[2][0][3]])
        if k == "call":
            tb = self.crate.bodies.get(t[1])
            if tb is not None and tb.local_ty(0) == "bool":
                rc = self.ret_cond(tb)
                env = {i + 1: a for i, a in enumerate(t[2])}
                # the predicate's own loops bind their own element variables (one fresh set per call site)
                if t not in self._exp:
                    self._ntag += 1
                    self._exp[t] = self.subst(self.tag_elems(rc, ("tag-call", tb.path, self._ntag)), env)
                return self._exp[t]
            return B.atom(("pred", t))
        if k == "phi":
            members = t[2]
            fb = self.crate.bodies.get(t[1][0]) if isinstance(t[1], tuple) and len(t[1]) == 2 else None
            if fb is None:
                raise Unanalysable("boolean phi %s" % show(t)[:80])
            return self.flag_cond(fb, t[1][1])
        return B.atom(("pred", t))

    def atom_formula(self, body, a):
        k = a[0]
        if k == "isin":
            if a[1][0] == "opt":
                return B.T
            u = core.VARIANT_UNIVERSE.get(a[1])
            return B.Or(*[self.lit_is(a[1], v, u) for v in a[2]])
        if k == "isnot":
            if a[1][0] == "opt":
                return B.T
            u = core.VARIANT_UNIVERSE.get(a[1])
            return B.And(*[B.Not(self.lit_is(a[1], v, u)) for v in a[2]])
        if k == "true":
            return self.bool_formula(body, a[1])
        if k == "false":
            return B.Not(self.bool_formula(body, a[1]))
        if k == "intsw":
            return B.atom(("pred", ("intsw", a[1], a[2])))
        raise Unanalysable("atom %r" % (a,))

    def guard(self, body, bb):
        key = (body.path, bb)
        if key in self._guard:
            return self._guard[key]
        raw = core.block_guard_atoms(body, bb)
        if raw is None:
            return B.F
        base = B.Or(*[B.And(*[self.atom_formula(body, a) for a in conj]) for conj in raw])
        # loops that were left before reaching bb: reaching bb means that no iteration took an early exit
        # (break / continue 'outer / return inside the loop): conjoin  !exists elem: exit-condition
        extra = []
        import order as O
        trivial = getattr(body, "trivial_switches", set())
        for h, blocks in sorted(body.loops.items()):
            if bb in blocks or not body.reaches_acyclic(h, bb):
                continue
            normal_reaches = False
            for x in sorted(blocks):
                for (t, lab) in body.succ[x]:
                    if t not in blocks and lab is not None and lab[0] in trivial and body.edge_reaches_acyclic(x, t, bb):
                        normal_reaches = True
            if not normal_reaches:
                continue  # bb lies on an early-exit path of this loop: its path condition already says which one
            early = [(x, t, lab) for x in sorted(blocks) for (t, lab) in body.succ[x] if t not in blocks and not (lab is not None and lab[0] in trivial)]
            if early and all(body.edge_reaches_acyclic(_x, t, bb) for (_x, t, _l) in early):
                # every way out of the loop (exhaustion and each `break`) leads here: the loop puts no condition on reaching bb; what differs
                # between the ways out is carried by the values they set (a flag: see flag_cond)
                continue
            for x in sorted(blocks):
                for (t, lab) in body.succ[x]:
                    if t in blocks:
                        continue
                    if lab is not None and lab[0] in trivial:
                        continue  # iterator exhausted: the normal exit
                    if body.edge_reaches_acyclic(x, t, bb):
                        raise Unanalysable("early exit of the loop at bb%d rejoins the code after it (%s)" % (h, body.path))
                    cond = self.guard(body, x)
                    if lab is not None:
                        cond = B.And(cond, self.atom_formula(body, core.switch_atom(body, lab[0], lab[1])))
                    keep = set()
                    for lp in O.loops_of_body(body):
                        if lp.head is not None and (lp.head == h or lp.head in blocks):
                            keep.add(("elem", lp.iterable))
                            if lp.iterable[0] == "enumerate":
                                keep.add(("enumelem", lp.iterable[1]))
                    extra.append(B.Not(self._tag(cond, ("tag-exit", body.path, h), keep)))
        r = B.And(base, *extra)
        self._guard[key] = r
        return r

    def _tag(self, f, tag, keep):
        def tr(t):
            if not isinstance(t, tuple) or not t:
                return t
            if t[0] == "elem" and t[1][0] != "iter" and t in keep:
                return ("elem", ("iter", tr(t[1]), tag))
            if t[0] in ("const", "obj", "rec", "unknown", "bottom", "param"):
                return t
            return tuple(tr(x) if isinstance(x, tuple) else x for x in t)

        def fn(key):
            k = key[0]
            if k == "is":
                return B.atom(("is", tr(key[1]), key[2]) + tuple(key[3:]))
            if k == "rel":
                return B.atom(("rel", key[1], tr(key[2]), tr(key[3])))
            if k == "pred":
                return B.atom(("pred", tr(key[1])))
            return None
        return B.subst_atoms(f, fn)

    # ---------------------------------------------------------------- predicates and flags
    def ret_cond(self, body):
        """formula (over the callee's parameters) under which a bool function returns true"""
        if body.path in self._ret:
            r = self._ret[body.path]
            if r is None:
                raise Unanalysable("recursive predicate %s" % body.path)
            return r
        self._ret[body.path] = None
        parts = []
        self._ret_exits(body, S.def_table(body, 0))
        for bb, v in S.def_table(body, 0):
            g = self.guard(body, bb)
            if v[0] == "const" and v[1] == "bool":
                if v[2]:
                    parts.append(g)
                continue
            parts.append(B.And(g, self.bool_formula(body, v)))
        r = B.Or(*parts)
        self._ret[body.path] = r
        return r

    def _ret_exits(self, body, defs):
        """`returns true iff some element ...` is order-free only if the answers given from inside a loop agree: a loop that can answer `false`
        (or a computed value) for one element and `true` for another answers by whichever comes first"""
        body.guards()
        trivial = getattr(body, "trivial_switches", set())
        for h, blocks in sorted(body.loops.items()):
            normal = [t for x in blocks for (t, lab) in body.succ[x] if t not in blocks and lab is not None and lab[0] in trivial and (x, t) not in body.back]
            inside = []
            for bb, v in defs:
                if bb in blocks or not body.reaches_acyclic(h, bb):
                    continue
                if any(t == bb or body.reaches_acyclic(t, bb) for t in normal):
                    continue  # after the loop has run out
                inside.append((bb, v))
            may_false = [d for d in inside if not (d[1][0] == "const" and d[1][1] == "bool" and d[1][2])]
            may_true = [d for d in inside if not (d[1][0] == "const" and d[1][1] == "bool" and not d[1][2])]
            if may_false and may_true:
                raise Unanalysable("%s answers from inside the loop at line %d with a value that can be false (line %d) and one that can be true (line %d): "
                                   "the first element that answers decides, later ones are never examined"
                                   % (body.path, body.blocks[h]["tloc"]["line"], body.blocks[may_false[0][0]]["tloc"]["line"], body.blocks[may_true[0][0]]["tloc"]["line"]))

    @staticmethod
    def _float_cmp(t):
        return any(x[0] == "const" and x[1] == "other" and ("f32" in str(x[2]) or "f64" in str(x[2])) for a in t[2] for x in T.subterms(a))

    def flag_cond(self, body, local):
        key = (body.path, local)
        if key in self._flag:
            return self._flag[key]
        trues, falses, others = [], [], []
        for (bb, si, pr, kind, payload) in body.defs.get(local, []):
            if pr or kind not in ("rv", "call"):
                raise Unanalysable("flag _%d of %s assigned through a projection" % (local, body.path))
            v = body.val_rvalue(payload, (), (bb, si)) if kind == "rv" else body.val_call(payload, (), bb)
            if not (v[0] == "const" and v[1] == "bool"):
                others.append((bb, v))
                continue
            (trues if v[2] else falses).append(bb)
        for f in falses:
            for t in trues + [o[0] for o in others]:
                if not body.dominates(f, t) and body.reaches_acyclic(t, f):
                    raise Unanalysable("flag _%d of %s is reset after being set" % (local, body.path))
        if others or any(not body.dominates(f, t) for f in falses for t in trues):
            # definitions on alternative paths (not the initialise-then-set pattern): they must belong to one loop nest, i.e. be alternatives of one iteration
            nests = set(tuple(body.loops_of(bb)) for bb in trues + falses + [o[0] for o in others])
            if len(nests) > 1:
                raise Unanalysable("flag _%d of %s is defined in different loop nests" % (local, body.path))
        # a boolean computed on one path and defaulted on the others (`if let .. { return cond } false`): each definition contributes under the
        # condition of its own path; two computed definitions may not overwrite each other
        for (b1, _v1) in others:
            for b2 in trues + [o[0] for o in others]:
                if b1 != b2 and (body.reaches_acyclic(b1, b2) or body.reaches_acyclic(b2, b1)):
                    raise Unanalysable("flag _%d of %s is assigned a computed value on overlapping paths" % (local, body.path))
        if others:
            r = B.Or(*([self.guard(body, bb) for bb in trues] + [B.And(self.guard(body, bb), self.bool_formula(body, v)) for (bb, v) in others]))
            self._flag[key] = r
            return r
        r = B.Or(*[self.guard(body, bb) for bb in trues])
        mode = self._flag_exits(body, local, trues, falses)
        # "some iteration set the flag": the loop elements mentioned are bound by the flag, not by the reader's position
        inner = set()
        for bb in trues:
            for h in body.loops_of(bb):
                inner.add(h)
            # a block reached by leaving a loop early (`break` after setting the flag, the hit branch of any()) belongs to that loop's iteration
            frontier, seen_ = [bb], set()
            for _depth in range(8):
                nxt_ = []
                for x_ in frontier:
                    for (p_, _l) in body.pred[x_]:
                        if p_ in seen_:
                            continue
                        seen_.add(p_)
                        hs = [h for h in body.loops_of(p_) if bb not in body.loops[h]]
                        if hs:
                            inner.update(hs)
                        else:
                            nxt_.append(p_)  # still on the way out (blocks between the loop and bb)
                frontier = nxt_
        if mode is not None:
            # "some element before this one": the elements of the carrying loop are bound by the flag and marked as earlier ones
            r = self.tag_elems(r, ("tag-flag<", body.path, local), only_elems={mode[1]})
        else:
            r = self.tag_elems(r, ("tag-flag", body.path, local), only_loops=(body, inner, trues))
        self._flag[key] = r
        return r

    def _flag_exits(self, body, local, trues, falses):
        """`flag := some iteration set it` is order-free only if the loop looks at every element, or stops looking only once the flag is set: an
        early way out of a loop that (re)sets the flag in other iterations, taken on a path of its iteration that has not set the flag, and after
        which the flag is still read, makes the flag depend on what came before the element that would have set it"""
        reads = _reads_of(body, local)
        body.guards()
        trivial = getattr(body, "trivial_switches", set())
        mode = None
        for h, blocks in sorted(body.loops.items()):
            if not any(t in blocks for t in trues) or any(f in blocks for f in falses):
                continue  # not a loop whose iterations accumulate into the flag (the flag is per-iteration state of it, or is not set in it)
            inside = sorted(rb for rb in reads if rb in blocks)
            if inside:
                # the flag is read by the iterations of the loop that sets it: at element x it says "some element before x set it". That is a statement
                # about the list order, which the formula can carry only if every reader sees it the same way: all reads inside this loop, each of them
                # before (in its own iteration) any place that sets the flag, the loop walking its list forwards and to exhaustion
                name = body.locals[local].get("name") or "_%d" % local
                why = None
                import order as O
                lp = [l for l in O.loops_of_body(body) if l.head == h]
                if mode is not None:
                    why = "it is carried by two nested loops"
                elif [rb for rb in reads if rb not in blocks]:
                    why = "it is also read at line %d outside that loop" % body.blocks[sorted(rb for rb in reads if rb not in blocks)[0]]["tloc"]["line"]
                elif not lp or lp[0].order != "ordered" or any(c[1].rsplit("::", 1)[-1] in ("rev", "rposition", "rfind", "rfold") for c in T.calls_in(lp[0].iterable)):
                    why = "the loop does not walk a list forwards"
                elif lp[0].exits()[1]:
                    why = "the loop is left early"
                else:
                    for t in trues:
                        if t in blocks and any(t == rb or self._reaches_within(body, blocks, h, t, rb) for rb in inside):
                            why = "the iteration that sets it (line %d) reads it afterwards" % body.blocks[t]["tloc"]["line"]
                if why:
                    raise Unanalysable("`%s` (%s) is read at line %d inside the loop whose other iterations set it, and %s: what is read depends on which elements came before"
                                       % (name, body.path, body.blocks[inside[0]]["tloc"]["line"], why))
                mode = ("before", ("elem", lp[0].iterable))
                continue
            for x in sorted(blocks):
                for (t, lab) in body.succ[x]:
                    if t in blocks or (lab is not None and lab[0] in trivial):
                        continue
                    if (x, t) in body.back or not any(t == rb or body.reaches_acyclic(t, rb) for rb in reads):
                        continue  # leaves towards a place where the flag no longer matters
                    # is x reachable from the loop head inside one iteration without passing a block that sets the flag?
                    seen, work = set(), [h]
                    hit = False
                    while work:
                        y = work.pop()
                        if y in seen or y in trues:
                            continue
                        seen.add(y)
                        if y == x:
                            hit = True
                            break
                        for (z, _l) in body.succ[y]:
                            if z in blocks and z != h:
                                work.append(z)
                    if hit:
                        raise Unanalysable("the loop that sets `%s` (%s) is left early at line %d on a path that has not set it: elements after that point are never examined"
                                           % (body.locals[local].get("name") or "_%d" % local, body.path, body.blocks[x]["tloc"]["line"]))
        return mode

    @staticmethod
    def _reaches_within(body, blocks, head, a, b):
        """b reachable from a inside one iteration (without going through the loop head)"""
        seen, work = set(), [a]
        while work:
            y = work.pop()
            for (z, _l) in body.succ[y]:
                if z == b:
                    return True
                if z in blocks and z != head and z not in seen:
                    seen.add(z)
                    work.append(z)
        return False

    def tag_elems(self, f, tag, only_loops=None, only_elems=None):
        """rename the element variables bound by loops of the expanded predicate / flag"""
        keep = only_elems
        if only_loops is not None:
            # elements of loops that enclose every reader of the flag as well are shared with the reader (same iteration)
            body, heads, trues = only_loops
            keep = set()
            import order as O
            for lp in O.loops_of_body(body):
                if lp.head in heads:
                    # a loop is private to the flag if the flag is (re)initialised outside it
                    inits = [d[0] for d in body.defs.get(tag[2], []) if d[0] not in trues]
                    if all(i not in lp.blocks for i in inits):
                        keep.add(("elem", lp.iterable))
            if not keep:
                return f

        def tr(t):
            if not isinstance(t, tuple) or not t:
                return t
            if t[0] == "elem" and t[1][0] != "iter" and (keep is None or t in keep):
                return ("elem", ("iter", tr(t[1]), tag))
            if t[0] in ("const", "obj", "rec", "unknown", "bottom", "param"):
                return t
            return tuple(tr(x) if isinstance(x, tuple) else x for x in t)

        def fn(key):
            k = key[0]
            if k == "is":
                return B.atom(("is", tr(key[1]), key[2]) + tuple(key[3:]))
            if k == "rel":
                return B.atom(("rel", key[1], tr(key[2]), tr(key[3])))
            if k == "pred":
                return B.atom(("pred", tr(key[1])))
            return None
        return B.subst_atoms(f, fn)

    # ---------------------------------------------------------------- substitution / rendering
    def subst(self, f, env):
        def fn(key):
            k = key[0]
            if k == "is":
                return B.atom(("is", core.subst_params(key[1], env), key[2]) + tuple(key[3:]))
            if k == "rel":
                a2, b2 = core.subst_params(key[2], env), core.subst_params(key[3], env)
                if key[1] == "Eq":
                    # comparison of a boolean with a constant (`flag == (v < x)` after the flag's value is known)
                    for (x, y) in ((a2, b2), (b2, a2)):
                        if x[0] == "const" and x[1] == "bool" and y[0] in ("call", "bin", "un", "is", "phi"):
                            f2 = self.bool_formula(None, y)
                            return f2 if x[2] else B.Not(f2)
                return B.atom(("rel", key[1], a2, b2))
            if k == "pred":
                t = key[1]
                if t[0] == "intsw":
                    return B.atom(("pred", ("intsw", core.subst_params(t[1], env), t[2])))
                t2 = core.subst_params(t, env)
                if t2[0] == "const" and t2[1] == "bool":
                    return B.T if t2[2] else B.F
                return B.atom(("pred", t2))
            return None
        return B.subst_atoms(f, fn)

    @staticmethod
    def render_key(key, names=None):
        k = key[0]
        if k == "is":
            subj = show(key[1], names)
            if len(key) > 3:
                B.UNIVERSE[B.universe_key(subj)] = key[3]
            return "is(%s; %s)" % (subj, key[2])
        if k == "rel":
            return "%s(%s, %s)" % (key[1].lower(), show(key[2], names), show(key[3], names))
        if k == "pred":
            t = key[1]
            if t[0] == "intsw":
                return "in(%s; %s)" % (show(t[1], names), ",".join(t[2]))
            if t[0] == "call":
                return "%s(%s)" % (core.short_fn(t[1]), ", ".join(show(a, names) for a in t[2]))
            return show(t, names)
        return repr(key)

    def render(self, f, names=None):
        names = dict(names or {})
        # number the bound element variables in order of first occurrence (the comparison is modulo a permutation of these numbers)
        for key in B.atoms_of(f):
            for part in key[1:]:
                if isinstance(part, tuple):
                    for x in T.subterms(part):
                        if x[0] == "iter" and ("tag", x[2]) not in names:
                            if x[2] not in self.tagnum:
                                self.tagnum[x[2]] = len(self.tagnum) + 1
                            names[("tag", x[2])] = self.tagnum[x[2]]
        return B.rename(f, lambda key: self.render_key(key, names))

    # ---------------------------------------------------------------- reports
    def reports(self, body, obj=None, depth=0, _returned=False):
        with S.raw_terms():
            return self._reports(body, obj, depth, _returned)

    def _reports(self, body, obj=None, depth=0, _returned=False):
        """[(reported term, formula, site)] for everything put into the set `obj` (default: the returned set)"""
        if depth > 6:
            raise Unanalysable("report nesting too deep")
        R = obj if obj is not None else body.val_local(0)
        out = []
        if obj is None and R[0] == "phi":
            # several returned objects (guard clauses returning an empty set early, then the real result): each one contributes what is put into
            # it, under the condition of the path on which it is the one returned
            for bb, v in S.def_table(body, 0):
                if v[0] in ("unknown", "phi"):
                    raise Unanalysable("returned set defined by %s" % show(v)[:40])
                g = self.guard(body, bb)
                for (t, f, s) in self.reports(body, v, depth + 1, _returned=True):
                    out.append((t, B.And(g, f), s))
            return out
        if (obj is None or _returned) and R[0] == "call" and R[1] in self.crate.bodies and self.crate.bodies[R[1]].local_ty(0).startswith("std::collections::"):
            # thin wrapper: the result is another local function's result
            fb = self.crate.bodies[R[1]]
            env = {i + 1: a for i, a in enumerate(R[2])}
            site = None
            for s in S.call_sites(body):
                if s.path == R[1]:
                    site = s
            for (t, f, s2) in self.reports(fb, None, depth + 1):
                out.append((core.subst_params(t, env), self.subst(f, env), site or s2))
            return out
        for s in S.call_sites(body):
            if not s.args or s.args[0] != R:
                continue
            name = s.path.rsplit("::", 1)[-1]
            if name == "insert" and len(s.args) == 2:
                out.append((s.args[1], self.guard(body, s.bb), s))
            elif name == "insert" and len(s.args) == 3:
                # map insert: the reported term is the (key, value) pair
                out.append((("agg", "tuple", "", (s.args[1], s.args[2])), self.guard(body, s.bb), s))
            elif name == "extend" and len(s.args) == 2:
                y = s.args[1]
                g = self.guard(body, s.bb)
                if y[0] == "call":
                    fb = self.crate.bodies.get(y[1])
                    if fb is None:
                        raise Unanalysable("extend with %s" % show(y)[:60])
                    env = {i + 1: a for i, a in enumerate(y[2])}
                    for (t, f, s2) in self.reports(fb, None, depth + 1):
                        out.append((core.subst_params(t, env), B.And(g, self.subst(f, env)), s))
                else:
                    for (t, f, s2) in self.reports(body, y, depth + 1):
                        out.append((t, B.And(g, f), s))
            elif name in ("new", "len", "contains", "iter", "clone", "is_empty", "into_iter"):
                continue
            elif name in ("remove", "retain", "clear", "drain"):
                raise Unanalysable("result set shrinks through %s" % name)
        return [self._through_list(body, x) for x in out]

    def _through_list(self, body, rep):
        """an element of an intermediate list that is filled by a single push (a helper returning Vec<Loc>, then `set.extend(list)`): the reported
        value is the pushed value, under the condition of the push as well"""
        (t, f, s) = rep
        for x in T.subterms(t):
            if x[0] != "elem":
                continue
            L = x[1][1] if x[1][0] == "iter" else x[1]
            if not (L[0] == "call" and L[1].endswith("Vec::<T>::new") and L[3] and L[3][0] == body.path):
                continue
            uses = [u for u in S.call_sites(body) if u.args and u.args[0] == L]
            pushes = [u for u in uses if u.path.endswith("Vec::<T, A>::push")]
            others = [u for u in uses if u not in pushes and u.path.rsplit("::", 1)[-1] not in ("len", "iter", "is_empty", "clone", "into_iter", "deref", "next", "drop")]
            if len(pushes) != 1 or others:
                continue
            v = pushes[0].args[1]

            def sub(z):
                if z == x:
                    return v
                if not isinstance(z, tuple) or not z or z[0] in ("const", "obj", "rec", "unknown", "bottom", "param"):
                    return z
                return tuple(sub(y) if isinstance(y, tuple) else y for y in z)
            return (sub(t), B.And(f, self.guard(body, pushes[0].bb)), s)
        return rep
