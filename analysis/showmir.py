"""debug aid: python3 analysis/showmir.py <repo> <fn-suffix>... [--prep]  — print the (optionally preprocessed) MIR facts of functions"""
import sys, os
sys.path.insert(0, os.path.dirname(os.path.abspath(__file__)))
import facts, mirpp
args = [a for a in sys.argv[1:] if not a.startswith("--")]
f = facts.load(args[0])
data = f["lib"]
if "--bin" in sys.argv:
    data = f["bin"]
if "--prep" in sys.argv:
    import prep
    data = prep.preprocess(data)
for b in data["bodies"]:
    if any(b["path"].endswith(x) for x in args[1:]):
        mirpp.show(b)
