"""Iteration-order classification shared by C13 and C15: which loops iterate in an order that is not a
function of the data (hash order, directory-listing order, discovery order), which sinks are order-sensitive."""
import re
import sites as S
import terms as T
from core import show

ADAPTORS = ("std::iter::Enumerate", "std::iter::Map", "std::iter::Filter", "std::iter::Cloned", "std::iter::Copied",
            "std::iter::Peekable", "std::iter::Skip", "std::iter::Take", "std::iter::Chain", "std::iter::Zip",
            "std::iter::FilterMap", "std::iter::Inspect", "std::iter::Flatten", "std::iter::FlatMap", "std::iter::Rev")
HASHED = ("std::collections::HashMap", "std::collections::HashSet", "std::collections::hash_map::", "std::collections::hash_set::",
          "std::fs::ReadDir", "hashbrown::")
ORDERED = ("std::vec::", "std::slice::", "core::slice::", "std::collections::BTreeSet", "std::collections::BTreeMap",
           "std::collections::btree_set::", "std::collections::btree_map::", "std::collections::btree_", "std::ops::Range", "std::str::", "core::str::",
           "std::option::", "std::collections::VecDeque", "std::collections::vec_deque::", "std::array::", "core::array::", "regex::")


def split_generic(ty):
    ty = ty.strip()
    while ty.startswith("&"):
        ty = re.sub(r"^&('\w+ )?(mut )?", "", ty).strip()
    i = ty.find("<")
    if i < 0:
        return ty, []
    head = ty[:i]
    inner = ty[i + 1: ty.rfind(">")]
    args, depth, cur = [], 0, ""
    for ch in inner:
        if ch in "<([":
            depth += 1
        elif ch in ">)]":
            depth -= 1
        if ch == "," and depth == 0:
            args.append(cur.strip())
            cur = ""
        else:
            cur += ch
    if cur.strip():
        args.append(cur.strip())
    return head, args


def iter_order(ty):
    """'hash' | 'ordered' | 'unknown' for the Self type of an iterator / iterable"""
    head, args = split_generic(ty)
    if head.startswith(ADAPTORS):
        targs = [a for a in args if not a.startswith("'")]
        return iter_order(targs[0]) if targs else "unknown"
    if head.startswith(HASHED):
        return "hash"
    if head.startswith(ORDERED):
        return "ordered"
    return "unknown"


SORTS = ("::sort", "::sort_by", "::sort_by_key", "::sort_unstable", "::sort_unstable_by", "::sort_unstable_by_key", "::sort_by_cached_key")

ORDER_INSENSITIVE = (
    "std::collections::HashSet::<T, S>::insert", "std::collections::HashSet::<T, S, A>::insert",
    "std::collections::BTreeSet::<T, A>::insert", "std::collections::BTreeSet::<T>::insert",
    "std::collections::HashMap::<K, V, S>::insert", "std::collections::HashMap::<K, V, S, A>::insert",
    "std::collections::HashMap::<K, V, S>::remove", "std::collections::HashMap::<K, V, S, A>::remove",
    "std::collections::BTreeMap::<K, V, A>::insert", "std::iter::Extend::extend",
)
ORDERED_SINKS = (
    "std::string::String::push_str", "std::string::String::push", "std::string::String::insert_str", "std::ops::Add::add",
    "std::ops::AddAssign::add_assign",
    "std::vec::Vec::<T, A>::push", "std::vec::Vec::<T, A>::append", "std::vec::Vec::<T, A>::insert", "std::vec::Vec::<T, A>::extend_from_slice",
    "std::collections::VecDeque::<T, A>::push_back", "std::collections::VecDeque::<T, A>::push_front",
    "std::fmt::Write::write_str", "std::fmt::Write::write_fmt", "std::io::Write::write_all", "std::io::Write::write_fmt",
)


class Loop:
    def __init__(self, body, site):
        self.body = body
        self.site = site
        self.self_ty = site.fn["gargs"][0] if site.fn and site.fn.get("gargs") else ""
        self.iterable = site.args[0] if site.args else ("unknown", "")
        heads = body.loops_of(site.bb)
        self.head = heads[-1] if heads else None
        self.blocks = body.loops.get(self.head, set()) if self.head is not None else set()
        self.order = iter_order(self.self_ty)

    def exits(self):
        """(from, to) edges leaving the loop other than through the iterator-exhausted edge"""
        out = []
        b = self.body
        # the exhausted edge: the switch on discriminant(next()) going to None
        for x in self.blocks:
            for (t, l) in b.succ[x]:
                if t not in self.blocks and b.can_return(t):
                    out.append((x, t, l))  # (a way out that can only end in a panic is not an exit: the run is over; which panics are admissible is C04's business)
        # identify the exhaustion switch: the block that follows the next() call
        nxt = self.site.term["t"]
        normal = [(x, t) for (x, t, l) in out if x == nxt]
        extra = [(x, t) for (x, t, l) in out if x != nxt]
        return normal, extra


def loops_of_body(body):
    return [Loop(body, s) for s in S.call_sites(body) if s.path == "std::iter::Iterator::next"]


def creation_block(body, obj):
    """block in which the object denoted by the term was created, if it is a constructor call / obj in this body"""
    if obj[0] == "obj" and obj[3] and obj[3][0] == body.path:
        return obj[3][1]
    if obj[0] == "call" and obj[3] and obj[3][0] == body.path:
        return obj[3][1]
    return None


def root_object(t):
    """follow receiver chains (or_insert(entry(X, k)) -> X ; projections of x -> x)"""
    while True:
        if t[0] == "call" and t[1].endswith(("::or_insert", "::or_insert_with", "::or_default", "::entry", "::get_mut", "::deref_mut", "::as_mut")) and t[2]:
            t = t[2][0]
            continue
        if t[0] == "proj":
            t = t[1]
            continue
        return t


def sorted_before(body, obj, bb):
    """is there a sort* call on `obj` dominating block bb"""
    for s in S.call_sites(body):
        if s.path.endswith(SORTS) and s.args and s.args[0] == obj and body.dominates(s.bb, bb):
            return s
    return None
