"""E0 runner: build the driver if needed, extract MIR facts for the current /repo tree
(cached by a hash of every input the rules read), serialised by a lock file."""
import fcntl, glob, hashlib, json, os, shutil, subprocess, sys, time

VERIF = os.path.dirname(os.path.dirname(os.path.abspath(__file__)))
REPO = os.environ.get("SOLSTAT_REPO", "/repo")
CACHE = os.path.join(VERIF, ".cache")
DRIVER_DIR = os.path.join(VERIF, "driver")
DRIVER = os.path.join(DRIVER_DIR, "target", "release", "solstat-facts")


class NoFacts(Exception):
    pass


def _env():
    e = dict(os.environ)
    e["CARGO_NET_OFFLINE"] = "true"
    e.pop("RUSTC_WRAPPER", None)
    return e


def nightly_sysroot():
    return subprocess.check_output(["rustc", "+nightly", "--print", "sysroot"], env=_env(), text=True).strip()


def build_driver(force=False):
    src = os.path.join(DRIVER_DIR, "src", "main.rs")
    if (not force) and os.path.exists(DRIVER) and os.path.getmtime(DRIVER) >= os.path.getmtime(src):
        return
    r = subprocess.run(["cargo", "build", "--release", "--offline"], cwd=DRIVER_DIR, env=_env(),
                       stdout=subprocess.PIPE, stderr=subprocess.STDOUT, text=True)
    if r.returncode != 0 or not os.path.exists(DRIVER):
        sys.stderr.write(r.stdout)
        raise NoFacts("driver build failed")


def input_files(repo=REPO):
    fs = []
    for pat in ("src/**/*.rs", "Cargo.toml", "Cargo.lock", "docs/*.md", "README.md", "Solstat.toml", "examples/*.rs", "build.rs"):
        fs += glob.glob(os.path.join(repo, pat), recursive=True)
    return sorted(set(fs))


def tree_hash(repo=REPO):
    h = hashlib.sha256()
    for f in input_files(repo):
        h.update(os.path.relpath(f, repo).encode() + b"\0")
        with open(f, "rb") as fh:
            h.update(fh.read())
        h.update(b"\0")
    with open(os.path.join(DRIVER_DIR, "src", "main.rs"), "rb") as fh:
        h.update(fh.read())
    return h.hexdigest()[:20]


def _extract(repo, outdir, target_dir, overflow_checks=True):
    os.makedirs(outdir, exist_ok=True)
    # cargo replays cached output for fresh units and then skips the wrapper: force the member
    for d in glob.glob(os.path.join(target_dir, "debug", ".fingerprint", "solstat-*")):
        shutil.rmtree(d, ignore_errors=True)
    e = _env()
    e["LD_LIBRARY_PATH"] = os.path.join(nightly_sysroot(), "lib") + ":" + e.get("LD_LIBRARY_PATH", "")
    flags = "-Zallow-features=proc_macro_diagnostic -Awarnings"
    e["RUSTFLAGS"] = flags
    e["RUSTC_WORKSPACE_WRAPPER"] = DRIVER
    e["SOLSTAT_FACTS_DIR"] = outdir
    e["CARGO_TARGET_DIR"] = target_dir
    cmd = ["cargo", "+nightly", "check", "--offline", "--lib", "--bins",
           "--manifest-path", os.path.join(repo, "Cargo.toml")]
    r = subprocess.run(cmd, env=e, stdout=subprocess.PIPE, stderr=subprocess.STDOUT, text=True)
    if r.returncode != 0:
        sys.stderr.write(r.stdout[-6000:])
        raise NoFacts("cargo check of %s failed (the tree does not compile?)" % repo)
    got = sorted(os.listdir(outdir))
    if not any(g.endswith("-rlib.json") for g in got) or not any(g.endswith("-executable.json") for g in got):
        raise NoFacts("fact files were not written: %r" % got)


def ensure_facts(repo=REPO, verbose=False):
    """Returns the directory holding solstat-rlib.json and solstat-executable.json for the
    current state of `repo`."""
    os.makedirs(CACHE, exist_ok=True)
    lock = open(os.path.join(CACHE, "lock"), "w")
    fcntl.flock(lock, fcntl.LOCK_EX)
    try:
        build_driver()
        h = tree_hash(repo)
        outdir = os.path.join(CACHE, "facts", h)
        done = os.path.join(outdir, "DONE")
        if not os.path.exists(done):
            t0 = time.time()
            tmp = outdir + ".tmp"
            shutil.rmtree(tmp, ignore_errors=True)
            shutil.rmtree(outdir, ignore_errors=True)
            _extract(repo, tmp, os.path.join(CACHE, "target"))
            os.rename(tmp, outdir)
            with open(done, "w") as fh:
                fh.write("%.1f\n" % (time.time() - t0))
            if verbose:
                sys.stderr.write("facts extracted in %.1fs -> %s\n" % (time.time() - t0, outdir))
            # keep the cache small: retain the 4 most recent fact dirs
            ds = sorted(glob.glob(os.path.join(CACHE, "facts", "*")), key=os.path.getmtime)
            for d in ds[:-4]:
                shutil.rmtree(d, ignore_errors=True)
        return outdir
    finally:
        fcntl.flock(lock, fcntl.LOCK_UN)
        lock.close()


def load(repo=REPO):
    d = ensure_facts(repo)
    out = {}
    for name, key in (("solstat-rlib.json", "lib"), ("solstat-executable.json", "bin")):
        with open(os.path.join(d, name)) as fh:
            out[key] = json.load(fh)
    return out


if __name__ == "__main__":
    print(ensure_facts(verbose=True))
