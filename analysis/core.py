"""E1-E3: CFG, value terms (provenance / access paths) and guards over the MIR facts.

Terms are nested tuples:
  ('param', i)                      i-th argument (1-based, as in MIR)
  ('const', kind, value)            kind in int|bool|str|unit|fn|other
  ('proj', base, elem)              elem = ('f', idx, name) | ('dc', Variant) | ('ix', term)
  ('agg', kind, name, (ops...))     kind in tuple|array|adt|closure ; name = "Path::Variant"
  ('call', path, (args...), site)   unmodelled / opaque call; site = (body, bb) or None
  ('elem', coll)                    some element of an iterated collection
  ('idx', coll)                     the position of that element (enumerate)
  ('len', x) ('bin', op, a, b) ('un', op, a) ('cast', a, ty) ('discr', a)
  ('phi', key, (vals...))           multiply-assigned local
  ('rec', key)                      back reference inside a cyclic phi (loop cursor)
  ('unknown', why)
References, derefs, Box, clone(), into()/from() between identical payloads, to_string(),
as_str() are transparent.
"""
import json, re, sys
from collections import defaultdict

sys.setrecursionlimit(10000)

# ------------------------------------------------------------------ facts / bodies


class Crate:
    def __init__(self, data):
        self.data = data
        self.name = data["crate"]
        self.ctype = data["crate_type"]
        self.adts = {a["path"]: a for a in data["adts"]}
        self.bodies = {}
        for b in data["bodies"]:
            self.bodies[b["path"]] = Body(self, b)
        self.statics = data["statics"]

    def body(self, suffix):
        """unique body whose path equals or ends with ::suffix"""
        if suffix in self.bodies:
            return self.bodies[suffix]
        c = [b for p, b in self.bodies.items() if p.endswith("::" + suffix)]
        if len(c) == 1:
            return c[0]
        return None

    def adt_of_ty(self, tys):
        """ADT record for a type string such as 'std::option::Option<Foo>' / '&Foo' / 'Box<Foo>'"""
        t = strip_refs(tys)
        t = unbox(t)
        base = t.split("<", 1)[0]
        return self.adts.get(base)


def strip_refs(t):
    t = t.strip()
    while True:
        if t.startswith("&mut "):
            t = t[5:].strip()
        elif t.startswith("&"):
            t = re.sub(r"^&('\w+ )?", "", t).strip()
        else:
            return t


def unbox(t):
    t = strip_refs(t)
    m = re.match(r"^std::boxed::Box<(.*)>$", t)
    if m:
        inner = m.group(1)
        # Box<T, A> never appears with explicit allocator in these strings
        return unbox(inner)
    return t


class Body:
    def __init__(self, crate, b):
        self.crate = crate
        self.b = b
        self.path = b["path"]
        self.blocks = b["blocks"]
        self.locals = b["locals"]
        self.arg_count = b["arg_count"]
        self.file = b["span"]["file"]
        self.line = b["span"]["line"]
        self.derived = b.get("derived", False)
        self._cfg()
        self._defs()
        self._val_cache = {}
        self._guard_cache = None

    # ---------------------------------------------------------------- CFG
    def _cfg(self):
        n = len(self.blocks)
        self.succ = [[] for _ in range(n)]  # list of (target, label) ; label None or (bb, labelset)
        for i, blk in enumerate(self.blocks):
            t = blk["term"]
            k = t["k"]
            if k == "goto":
                self.succ[i].append((t["t"], None))
            elif k == "switch":
                tg = defaultdict(set)
                for v, bb in t["ts"]:
                    tg[bb].add(v)
                if not self._else_infeasible(blk, t):
                    tg[t["else"]].add("else")
                for bb, ls in tg.items():
                    self.succ[i].append((bb, (i, frozenset(ls))))
            elif k in ("drop", "assert"):
                self.succ[i].append((t["t"], None))
            elif k == "call":
                if t["t"] is not None:
                    self.succ[i].append((t["t"], None))
        # blocks that are plainly `unreachable`
        self.dead = set(i for i, blk in enumerate(self.blocks) if blk["term"]["k"] == "unreachable" and not blk["stmts"])
        for i in range(n):
            self.succ[i] = [(t, l) for (t, l) in self.succ[i] if t not in self.dead]
        # feasible label universe per switch
        self.labels = {}
        for i in range(n):
            ls = set()
            for (t, l) in self.succ[i]:
                if l is not None:
                    ls |= l[1]
            if ls:
                self.labels[i] = frozenset(ls)
        self.pred = [[] for _ in range(n)]
        for i in range(n):
            for (t, l) in self.succ[i]:
                self.pred[t].append((i, l))
        # reachability
        seen = set()
        st = [0]
        while st:
            x = st.pop()
            if x in seen:
                continue
            seen.add(x)
            for (t, _) in self.succ[x]:
                st.append(t)
        self.reach = seen
        # reverse postorder
        order = []
        vis = set()

        def dfs(x):
            stack = [(x, iter(self.succ[x]))]
            vis.add(x)
            while stack:
                node, it = stack[-1]
                adv = False
                for (t, _) in it:
                    if t not in vis:
                        vis.add(t)
                        stack.append((t, iter(self.succ[t])))
                        adv = True
                        break
                if not adv:
                    order.append(node)
                    stack.pop()

        dfs(0)
        self.rpo = order[::-1]
        self.rpo_idx = {b: i for i, b in enumerate(self.rpo)}
        # dominators (Cooper-Harvey-Kennedy)
        idom = {0: 0}
        changed = True
        while changed:
            changed = False
            for b in self.rpo[1:]:
                ps = [p for (p, _) in self.pred[b] if p in idom]
                if not ps:
                    continue
                new = ps[0]
                for p in ps[1:]:
                    new = self._intersect(idom, p, new)
                if idom.get(b) != new:
                    idom[b] = new
                    changed = True
        self.idom = idom
        # back edges
        self.back = set()
        for b in self.reach:
            for (t, _) in self.succ[b]:
                if self.dominates(t, b):
                    self.back.add((b, t))
        # natural loops: head -> set of blocks
        self.loops = {}
        for (b, h) in self.back:
            body = self.loops.setdefault(h, set([h]))
            st = [b]
            while st:
                x = st.pop()
                if x in body:
                    continue
                body.add(x)
                for (p, _) in self.pred[x]:
                    if p in self.reach:
                        st.append(p)

    def _else_infeasible(self, blk, t):
        """a switch on discriminant(place) that lists every variant of the enum explicitly has no feasible otherwise edge"""
        d = t["d"]
        if d["k"] not in ("copy", "move") or d["p"]["pr"]:
            return False
        loc = d["p"]["l"]
        for st in reversed(blk["stmts"]):
            if st["k"] == "assign" and st["p"]["l"] == loc and not st["p"]["pr"]:
                rv = st["rv"]
                if rv["k"] != "discr":
                    return False
                adt = self.crate.adt_of_ty(rv["p"]["ty"]) if hasattr(self.crate, "adt_of_ty") else None
                if not adt or adt["kind"] != "enum":
                    return False
                alld = set(v["discr"] if v["discr"] is not None else v["vi"] for v in adt["variants"])
                return alld <= set(v for v, _ in t["ts"])
        return False

    def _intersect(self, idom, a, b):
        while a != b:
            while self.rpo_idx[a] > self.rpo_idx[b]:
                a = idom[a]
            while self.rpo_idx[b] > self.rpo_idx[a]:
                b = idom[b]
        return a

    def dominates(self, a, b):
        if a not in self.idom or b not in self.idom:
            return False
        while True:
            if a == b:
                return True
            if b == 0:
                return False
            b = self.idom[b]

    def reaches_acyclic(self, a, b):
        """b reachable from a (a == b counts) without taking a back edge"""
        seen = set()
        st = [a]
        while st:
            x = st.pop()
            if x == b:
                return True
            if x in seen:
                continue
            seen.add(x)
            st.extend(t for (t, _) in self.succ[x] if (x, t) not in self.back)
        return False

    def edge_reaches_acyclic(self, x, t, b):
        """b reachable, without a back edge, by leaving x through its edge to t (which may itself be a back edge: `continue 'outer` jumping straight to
        the outer loop's head starts another iteration, it does not reach what follows in this one)"""
        return (x, t) not in self.back and self.reaches_acyclic(t, b)

    def can_return(self, bb):
        """some path from bb reaches the function's return (false for blocks that can only end in a panic / abort / endless loop)"""
        cr = getattr(self, "_can_return", None)
        if cr is None:
            cr = set(i for i in self.reach if self.blocks[i]["term"] and self.blocks[i]["term"]["k"] == "return")
            work = list(cr)
            while work:
                y = work.pop()
                for (p_, _l) in self.pred[y]:
                    if p_ not in cr:
                        cr.add(p_)
                        work.append(p_)
            self._can_return = cr
        return bb in cr

    def loops_of(self, bb):
        """loop heads whose natural loop contains bb, outermost first"""
        hs = [h for h, body in self.loops.items() if bb in body]
        hs.sort(key=lambda h: -len(self.loops[h]))
        return hs

    def reaches(self, a, b, avoid=()):
        """is b reachable from a (following >=1 edge) without entering blocks in avoid"""
        seen = set()
        st = [t for (t, _) in self.succ[a]]
        while st:
            x = st.pop()
            if x in seen or x in avoid:
                continue
            if x == b:
                return True
            seen.add(x)
            st.extend(t for (t, _) in self.succ[x])
        return False

    # ---------------------------------------------------------------- definitions
    def _defs(self):
        self.defs = defaultdict(list)  # local -> [(bb, idx, proj, kind, payload)]
        self.calls = []  # (bb, term)
        for i, blk in enumerate(self.blocks):
            if i not in self.reach:
                continue
            for si, s in enumerate(blk["stmts"]):
                if s["k"] == "assign":
                    self.defs[s["p"]["l"]].append((i, si, s["p"]["pr"], "rv", s["rv"]))
                elif s["k"] == "setdiscr":
                    self.defs[s["p"]["l"]].append((i, si, s["p"]["pr"], "setdiscr", s))
            t = blk["term"]
            if t["k"] == "call":
                self.defs[t["dest"]["l"]].append((i, -1, t["dest"]["pr"], "call", t))
                self.calls.append((i, t))

    # ---------------------------------------------------------------- guards
    def guards(self):
        """block -> DNF (frozenset of frozenset of (switch_bb, labelset)), back edges cut"""
        if self._guard_cache is not None:
            return self._guard_cache
        g = {}
        # switches on the result of Iterator::next() (loop membership / exhaustion) carry no information
        trivial = set()
        for i in self.labels:
            try:
                d = self.val_operand(self.blocks[i]["term"]["d"])
            except Exception:
                continue
            if d[0] == "discr" and d[1][0] == "opt":
                trivial.add(i)
        self.trivial_switches = trivial
        for b in self.rpo:
            if b == 0:
                g[b] = frozenset([frozenset()])
                continue
            acc = set()
            for (p, l) in self.pred[b]:
                if p not in g or (p, b) in self.back:
                    continue
                if l is not None and l[0] in trivial:
                    l = None
                for conj in g[p]:
                    if l is None:
                        acc.add(conj)
                    else:
                        c = self._add_atom(conj, l)
                        if c is not None:
                            acc.add(c)
            g[b] = self._simplify(acc)
        self._guard_cache = g
        return g

    def _add_atom(self, conj, atom):
        sw, ls = atom
        out = set()
        for (s2, l2) in conj:
            if s2 == sw:
                ls = ls & l2
                if not ls:
                    return None
            else:
                out.add((s2, l2))
        out.add((sw, ls))
        return frozenset(out)

    def _simplify(self, conjs):
        conjs = set(conjs)
        changed = True
        while changed:
            changed = False
            # merge siblings that differ in the label set of one switch
            sws = set(s for c in conjs for (s, _) in c)
            for sw in sws:
                buckets = defaultdict(list)
                for c in conjs:
                    ls = [l for (s, l) in c if s == sw]
                    if ls:
                        rest = frozenset(a for a in c if a[0] != sw)
                        buckets[rest].append((c, ls[0]))
                for rest, items in buckets.items():
                    if len(items) > 1:
                        u = frozenset().union(*[l for (_, l) in items])
                        for (c, _) in items:
                            conjs.discard(c)
                        if u == self.labels.get(sw):
                            conjs.add(rest)
                        else:
                            conjs.add(frozenset(set(rest) | {(sw, u)}))
                        changed = True
                    elif items[0][1] == self.labels.get(sw):
                        conjs.discard(items[0][0])
                        conjs.add(rest)
                        changed = True
            # absorption
            for c in list(conjs):
                for d in list(conjs):
                    if c is not d and c != d and c in conjs and d in conjs and c < d:
                        conjs.discard(d)
                        changed = True
            if len(conjs) > 400:
                break
        return frozenset(conjs)

    # ---------------------------------------------------------------- values
    def local_ty(self, l):
        return self.locals[l]["ty"]

    def val_local(self, l, stack=()):
        if l in self._val_cache:
            return self._val_cache[l]
        key = (self.path, l)
        if l in stack:
            return ("rec", key)
        if 1 <= l <= self.arg_count and not any(d[2] == [] for d in self.defs.get(l, [])):
            v = ("param", l)
            self._val_cache[l] = v
            return v
        ds = self.defs.get(l, [])
        whole = [d for d in ds if d[2] == []]
        partial = [d for d in ds if d[2] != []]
        vals = []
        if 1 <= l <= self.arg_count:
            vals.append(("param", l))
        st2 = stack + (l,)
        for (bb, si, pr, kind, payload) in whole:
            if kind == "rv":
                vals.append(self.val_rvalue(payload, st2, (bb, si)))
            elif kind == "call":
                vals.append(self.val_call(payload, st2, bb))
            else:
                vals.append(("unknown", "setdiscr"))
        uninit = [d for d in whole if d[3] == "call" and (self.callee(d[4]) or {}).get("path", "").endswith("::new_uninit")]
        if uninit and len(whole) == len(uninit) and len(partial) == 1 and partial[0][2][0] == "deref" and partial[0][3] == "rv":
            # vec![a, b, ..] as expanded by this toolchain: Box::new_uninit + write of the array
            v = self.val_rvalue(partial[0][4], st2, (partial[0][0], partial[0][1]))
            if not stack:
                self._val_cache[l] = v
            return v
        if partial and not whole:
            # aggregate built field by field, e.g. tuple temporaries: reconstruct when simple
            fields = {}
            ok = True
            for (bb, si, pr, kind, payload) in partial:
                if len(pr) == 1 and isinstance(pr[0], dict) and "f" in pr[0] and kind in ("rv", "call"):
                    v = self.val_rvalue(payload, st2, (bb, si)) if kind == "rv" else self.val_call(payload, st2, bb)
                    fields.setdefault(pr[0]["f"], []).append(v)
                else:
                    ok = False
            if ok and fields and all(len(v) == 1 for v in fields.values()):
                n = max(fields) + 1
                vals.append(("agg", "tuple", "", tuple(fields.get(i, [("unknown", "unset")])[0] for i in range(n))))
            else:
                vals.append(("unknown", "partial-assign"))
        elif partial:
            vals.append(("unknown", "partial-assign"))
        if not vals:
            v = ("unknown", "undef _%d" % l)
        elif len(vals) == 1:
            v = vals[0]
        else:
            v = mk_phi(key, vals)
        if not stack:
            self._val_cache[l] = v
        return v

    def val_place(self, p, stack=()):
        v = self.val_local(p["l"], stack)
        for e in p["pr"]:
            if e == "deref":
                continue
            if isinstance(e, dict):
                if "f" in e:
                    v = mk_proj(v, ("f", e["f"], e.get("n")))
                    continue
                if "dc" in e:
                    v = mk_proj(v, ("dc", e["dc"]))
                    continue
                if "ix" in e:
                    v = mk_proj(v, ("ix", self.val_local(e["ix"], stack)))
                    continue
                if "ci" in e:
                    if e.get("from_end") and e["ci"] == 1:
                        # `[.., x]`: the last element (the pattern's length test, `len >= 1`, is what `last()` being Some says)
                        v = mk_proj(mk_proj(("call", "core::slice::<impl [T]>::last", (v,), None), ("dc", "Some")), ("f", 0, "0"))
                        continue
                    v = mk_proj(v, ("ix", ("const", "int", e["ci"] if not e.get("from_end") else -1 - e["ci"])))
                    continue
            v = ("unknown", "projection %s" % json.dumps(e))
        return v

    def val_operand(self, o, stack=()):
        k = o["k"]
        if k in ("copy", "move"):
            return self.val_place(o["p"], stack)
        if k == "const":
            if "fn" in o:
                return ("const", "fn", o["fn"]["path"])
            if "str" in o:
                return ("const", "str", o["str"])
            if "int" in o:
                if o["ty"] == "bool":
                    return ("const", "bool", bool(o["int"]))
                if o["ty"] == "char":
                    return ("const", "char", chr(o["int"]))
                return ("const", "int", o["int"])
            if o["ty"] == "()":
                return ("const", "unit", None)
            return ("const", "other", o["disp"])
        if k == "runtime_checks":
            return ("const", "bool", True) if "Overflow" in o.get("what", "") else ("unknown", "runtime_checks")
        return ("unknown", "operand")

    def val_rvalue(self, rv, stack=(), site=None):
        k = rv["k"]
        if k == "use":
            return self.val_operand(rv["o"], stack)
        if k == "ref" or k == "rawptr":
            return self.val_place(rv["p"], stack)
        if k == "cast":
            v = self.val_operand(rv["o"], stack)
            if rv["ck"].startswith("PointerCoercion") or rv["ck"] in ("PtrToPtr", "Transmute", "Subtype"):
                return v
            src = rv["o"]["p"]["ty"] if rv["o"]["k"] in ("copy", "move") else rv["o"].get("ty")
            return ("cast", v, rv["ty"], src)
        if k == "bin":
            return mk_bin(rv["op"], self.val_operand(rv["a"], stack), self.val_operand(rv["b"], stack))
        if k == "un":
            return mk_un(rv["op"], self.val_operand(rv["o"], stack))
        if k == "discr":
            return ("discr", self.val_place(rv["p"], stack), rv["p"]["ty"])
        if k == "agg":
            ops = tuple(self.val_operand(o, stack) for o in rv["ops"])
            ak = rv["ak"]
            if ak == "adt":
                return ("agg", "adt", rv["adt"] + "::" + rv["variant"], ops)
            if ak == "closure":
                return ("agg", "closure", rv["closure"], ops)
            return ("agg", ak, "", ops)
        if k == "repeat":
            return ("agg", "array", "repeat", (self.val_operand(rv["o"], stack),))
        return ("unknown", "rvalue " + k)

    def callee(self, t):
        f = t["f"]
        if f["k"] == "const" and "fn" in f:
            return f["fn"]
        return None

    def val_call(self, t, stack=(), bb=None):
        fn = self.callee(t)
        args = tuple(self.val_operand(a, stack) for a in t["args"])
        if fn is None:
            return ("call", "<indirect>", args, (self.path, bb))
        return model_call(self.crate, fn, args, (self.path, bb), t)


# ------------------------------------------------------------------ term constructors


def mk_phi(key, vals):
    flat = []
    for v in vals:
        if v[0] == "phi" and v[1] == key:
            flat.extend(v[2])
        else:
            flat.append(v)
    out = []
    for v in flat:
        if v not in out and v != ("bottom",):
            out.append(v)
    if len(out) == 1:
        return out[0]
    if not out:
        return ("bottom",)
    return ("phi", key, tuple(out))


def mk_proj(base, elem):
    k = base[0]
    if k == "phi":
        return mk_phi(base[1], [mk_proj(v, elem) for v in base[2]])
    if k == "bottom":
        return base
    if k == "agg":
        _, ak, name, ops = base
        if elem[0] == "dc":
            if ak == "adt":
                return base if name.rsplit("::", 1)[-1] == elem[1] else ("bottom",)
            return base
        if elem[0] == "f":
            if elem[1] < len(ops):
                return ops[elem[1]]
            return ("unknown", "field of agg")
        if elem[0] == "ix" and ak == "array":
            ix = elem[1]
            if ix[0] == "const" and ix[1] == "int" and 0 <= ix[2] < len(ops):
                return ops[ix[2]]
            return mk_phi(("arr", id(base)), list(ops))
    if k == "opt":
        # ('opt', x): Option whose Some payload is x
        if elem[0] == "dc":
            return base if elem[1] == "Some" else ("bottom",)
        if elem[0] == "f" and elem[1] == 0:
            return base[1]
    if k == "enumelem":
        # element of an enumerate(): (index, element)
        if elem[0] == "f":
            return ("idx", base[1]) if elem[1] == 0 else ("elem", base[1])
    if k == "bin" and base[1].endswith("WithOverflow") and elem[0] == "f":
        if elem[1] == 0:
            return ("bin", base[1][: -len("WithOverflow")], base[2], base[3])
        return ("overflowed", base)
    return ("proj", base, elem)


def mk_bin(op, a, b):
    return ("bin", op, a, b)


def mk_un(op, a):
    if op == "Not" and a[0] == "un" and a[1] == "Not":
        return a[2]
    if op == "PtrMetadata":
        return ("len", a)
    return ("un", op, a)


# ------------------------------------------------------------------ call models

ARITH_TRAITS = {"std::ops::Add::add": "Add", "std::ops::Sub::sub": "Sub", "std::ops::Mul::mul": "Mul", "std::ops::Div::div": "Div", "std::ops::Rem::rem": "Rem"}
INT_TYPES = ("u8", "u16", "u32", "u64", "u128", "usize", "i8", "i16", "i32", "i64", "i128", "isize")

IDENTITY = {
    "std::clone::Clone::clone",
    "std::borrow::ToOwned::to_owned",
    "std::string::ToString::to_string",
    "std::string::String::as_str",
    "std::ops::Deref::deref",
    "std::ops::DerefMut::deref_mut",
    "std::convert::AsRef::as_ref",
    "std::borrow::Borrow::borrow",
    "std::boxed::Box::<T>::new",
    "std::option::Option::<T>::as_ref",
    "std::option::Option::<T>::as_mut",
    "std::option::Option::<T>::as_deref",
    "std::option::Option::<T>::as_deref_mut",
    "std::option::Option::<T>::cloned",
    "std::option::Option::<T>::copied",
    "std::option::Option::<T>::clone",
    "std::iter::IntoIterator::into_iter",
    "core::slice::<impl [T]>::iter",
    "core::slice::<impl [T]>::iter_mut",
    "std::collections::BTreeSet::<T, A>::iter",  # (what order a collection is walked in is a matter of the iterator's type: order.py)
    "std::collections::BTreeMap::<K, V, A>::iter",
    "std::collections::HashSet::<T, S>::iter",
    "std::collections::HashSet::<T, S, A>::iter",
    "std::collections::HashMap::<K, V, S>::iter",
    "std::collections::HashMap::<K, V, S, A>::iter",
    "std::collections::VecDeque::<T, A>::iter",
    "std::vec::Vec::<T, A>::as_slice",
    "std::string::String::as_bytes",
    "core::str::<impl str>::as_bytes",
    "std::path::PathBuf::as_path",
    "std::path::Path::as_os_str",
    "std::convert::From::from",
    "std::convert::Into::into",
    "std::intrinsics::box_assume_init_into_vec_unsafe",
    "std::boxed::box_assume_init_into_vec_unsafe",
    "core::slice::<impl [T]>::into_vec",
    "std::slice::<impl [T]>::into_vec",
    "core::slice::<impl [T]>::to_vec",
    "std::slice::<impl [T]>::to_vec",
    "std::vec::Vec::<T>::from",
    "core::fmt::rt::Argument::<'_>::new_display",
    "core::fmt::rt::Argument::<'_>::new_debug",
    "std::hint::must_use",
    "core::hint::must_use",
}

STRING_CTORS = {
    "std::convert::From::from",
    "std::convert::Into::into",
    "std::string::ToString::to_string",
    "std::borrow::ToOwned::to_owned",
    "std::string::String::from",
}

UNWRAP_SOME = {
    "std::option::Option::<T>::unwrap",
    "std::option::Option::<T>::expect",
    "std::option::Option::<T>::unwrap_unchecked",
}
UNWRAP_OK = {
    "std::result::Result::<T, E>::unwrap",
    "std::result::Result::<T, E>::expect",
}
LEN = {
    "std::vec::Vec::<T, A>::len",
    "std::string::String::len",
    "core::str::<impl str>::len",
    "core::slice::<impl [T]>::len",
    "std::collections::HashMap::<K, V, S>::len",
    "std::collections::HashMap::<K, V, S, A>::len",
    "std::collections::HashSet::<T, S>::len",
    "std::collections::HashSet::<T, S, A>::len",
    "std::collections::BTreeSet::<T, A>::len",
    "std::collections::BTreeMap::<K, V, A>::len",
}

IS_EMPTY = set(p[: -len("len")] + "is_empty" for p in LEN)

INLINE_DEPTH = 6
_inline_stack = []


def fn_name(fn):
    return fn["path"]


def model_call(crate, fn, args, site, term=None):
    path = fn["path"]
    res = fn.get("resolved") or path
    if path in ("std::clone::Clone::clone", "std::borrow::ToOwned::to_owned", "std::ops::Deref::deref", "std::ops::DerefMut::deref_mut") and args \
            and not (args[0][0] == "const" and args[0][1] == "str"):
        return args[0]  # also for local (derived) impls: a clone denotes the same tree
    # local functions: inline their return value when not recursive
    if fn.get("resolved_local") or fn.get("local"):
        target = crate.bodies.get(res) or crate.bodies.get(path)
        if target is not None and fn.get("kind") != "Closure":
            v = inline_call(crate, target, args)
            if v is not None:
                return v
            return ("call", target.path, args, site)
    if path in STRING_CTORS and args and args[0][0] == "const" and args[0][1] == "str" and term is not None \
            and term["dest"]["ty"] == "std::string::String":
        # a fresh String object: identity = creation site (two buffers with equal initial text stay distinct)
        return ("obj", "String", args[0], site)
    if path in ("std::convert::From::from", "std::convert::Into::into") and len(args) == 1:
        # a lossless conversion between primitive integer types (`u16::from(x)`, `x.into()`) is the widening cast `x as u16`
        ga = fn.get("gargs") or []
        if len(ga) == 2 and all(g in INT_TYPES for g in ga) and ga[0] != ga[1]:
            dst, srcty = (ga[0], ga[1]) if path.endswith("::from") else (ga[1], ga[0])
            return ("cast", args[0], dst, srcty)
    if path in ARITH_TRAITS and len(args) == 2:
        # `a + &b`, `&a * &b` on primitive integers: the operator traits' reference impls are the plain operation on the values
        ga = [g.lstrip("&").strip() for g in (fn.get("gargs") or [])]
        if len(ga) == 2 and ga[0] == ga[1] and ga[0] in INT_TYPES:
            return ("bin", ARITH_TRAITS[path], args[0], args[1])
    if path in IDENTITY and args:
        return args[0]
    if path in UNWRAP_SOME and args:
        return mk_proj(mk_proj(args[0], ("dc", "Some")), ("f", 0, "0"))
    if path in UNWRAP_OK and args:
        return mk_proj(mk_proj(args[0], ("dc", "Ok")), ("f", 0, "0"))
    if path in LEN and args:
        return ("len", args[0])
    if path in IS_EMPTY and args:
        return ("bin", "Eq", ("len", args[0]), ("const", "int", 0))
    if path == "std::iter::Iterator::next" and args:
        it = args[0]
        if it[0] == "enumerate":
            return ("opt", ("enumelem", it[1]))
        if it[0] == "call" and it[2] and it[1].startswith(("std::collections::HashMap::", "std::collections::BTreeMap::")):
            nm = it[1].rsplit("::", 1)[-1]
            if nm in ("values", "into_values", "values_mut"):
                return ("opt", mk_proj(("elem", it[2][0]), ("f", 1, "1")))  # the value of some entry of the map
            if nm in ("keys", "into_keys"):
                return ("opt", mk_proj(("elem", it[2][0]), ("f", 0, "0")))
        if it[0] == "agg" and it[1] == "array" and it[2] != "repeat" and len(it[3]) == 1:
            return ("opt", it[3][0])  # the only element of a one-element list (vec![x])
        return ("opt", ("elem", it))
    if path == "std::iter::Iterator::enumerate" and args:
        return ("enumerate", args[0])
    if path in ("std::ops::Index::index", "std::ops::IndexMut::index_mut") and len(args) == 2:
        return mk_proj(args[0], ("ix", args[1]))
    if path in ("std::option::Option::<T>::is_some", "std::option::Option::<T>::is_none") and args:
        v = ("is", args[0], "Some")
        return v if path.endswith("is_some") else ("un", "Not", v)
    if path in ("std::cmp::PartialEq::eq", "std::cmp::PartialEq::ne") and len(args) == 2:
        v = ("bin", "Eq", args[0], args[1])
        return v if path.endswith("::eq") else ("un", "Not", v)
    if path in ("core::slice::<impl [T]>::first", "std::slice::<impl [T]>::first") and len(args) == 1:
        return ("call", "core::slice::<impl [T]>::get", (args[0], ("const", "int", 0)), site)  # x.first() is x.get(0)
    if path == "core::str::<impl str>::parse" and fn.get("gargs"):
        # the target type decides which literals parse: keep it in the callee's name
        return ("call", "core::str::<impl str>::parse::<%s>" % fn["gargs"][-1], args, site)
    return ("call", path, args, site)


def inline_call(crate, target, args):
    """return value of a local non-recursive function with parameters substituted"""
    if target.path in _inline_stack or len(_inline_stack) >= INLINE_DEPTH:
        return None
    if target.arg_count != len(args):
        return None
    rty = target.local_ty(0)
    if rty.startswith(("std::vec::Vec<", "std::collections::", "std::string::String")):
        return None  # results built by effects stay opaque calls (summarised by the rules)
    if rty in ("bool", "char", "i8", "i16", "i32", "i64", "i128", "isize", "u8", "u16", "u32", "u64", "u128", "usize", "f32", "f64"):
        return None  # predicates / computed scalars stay calls (expanded through their return table when needed)
    if len([d for d in target.defs.get(0, []) if d[2] == []]) > 2 or any(t["t"] is None for (_, t) in target.calls) or target.loops:
        return None  # dispatch tables / functions with a diverging arm are summarised by their return table
    _inline_stack.append(target.path)
    try:
        rv = target.val_local(0)
        if contains_kind(rv, ("rec",)) and False:
            return None
        if term_size(rv) > 4000:
            return None
        # functions whose result depends on loops / collections they build are left opaque
        if contains_call_to(rv, target.path):
            return None
        return subst_params(rv, {i + 1: a for i, a in enumerate(args)})
    finally:
        _inline_stack.pop()


def term_size(t, lim=5000):
    n = 0
    st = [t]
    while st:
        x = st.pop()
        n += 1
        if n > lim:
            return n
        if isinstance(x, tuple):
            for y in x:
                if isinstance(y, tuple):
                    st.append(y)
    return n


def contains_kind(t, kinds):
    st = [t]
    while st:
        x = st.pop()
        if isinstance(x, tuple):
            if x and x[0] in kinds:
                return True
            st.extend(y for y in x if isinstance(y, tuple))
    return False


def contains_call_to(t, path):
    st = [t]
    while st:
        x = st.pop()
        if isinstance(x, tuple):
            if len(x) >= 2 and x[0] == "call" and x[1] == path:
                return True
            st.extend(y for y in x if isinstance(y, tuple))
    return False


def subst_params(t, env):
    if not isinstance(t, tuple) or not t:
        return t
    k = t[0]
    if k == "param":
        return env.get(t[1], t)
    if k == "proj":
        e = t[2]
        if e[0] == "ix":
            e = ("ix", subst_params(e[1], env))
        return mk_proj(subst_params(t[1], env), e)
    if k == "phi":
        return mk_phi(t[1], [subst_params(v, env) for v in t[2]])
    if k in ("const", "rec", "unknown", "bottom", "obj"):
        return t
    if k == "call":
        return ("call", t[1], tuple(subst_params(a, env) for a in t[2]), t[3])
    if k == "agg":
        return ("agg", t[1], t[2], tuple(subst_params(a, env) for a in t[3]))
    if k == "discr":
        return ("discr", subst_params(t[1], env), t[2])
    if k == "cast":
        return ("cast", subst_params(t[1], env)) + tuple(t[2:])
    if k == "un":
        return mk_un(t[1], subst_params(t[2], env))
    if k == "bin":
        return ("bin", t[1], subst_params(t[2], env), subst_params(t[3], env))
    if k == "is":
        return ("is", subst_params(t[1], env), t[2])
    if k == "iter":
        return ("iter", subst_params(t[1], env), t[2])
    return tuple(subst_params(x, env) if isinstance(x, tuple) else x for x in t)


# ------------------------------------------------------------------ printing (canonical strings)


def show(t, names=None):
    """canonical, human-readable rendering of a term"""
    names = names or {}
    if t in names:
        return names[t]
    k = t[0]
    if k == "param":
        return "arg%d" % t[1]
    if k == "const":
        if t[1] == "str":
            return json.dumps(t[2])
        if t[1] == "fn":
            return "fn:" + t[2]
        if t[1] == "char":
            return "'%s'" % t[2]
        if t[1] == "unit":
            return "()"
        return str(t[2])
    if k == "proj":
        b = show(t[1], names)
        e = t[2]
        if e[0] == "f":
            bt = t[1]
            if e[1] == 0 and bt[0] == "proj" and bt[2][0] == "dc" and bt[2][1] in ("Some", "Ok"):
                return b  # `?` already denotes the payload
            nm = e[2] if (len(e) > 2 and e[2] and not str(e[2]).isdigit()) else str(e[1])
            return "%s.%s" % (b, nm)
        if e[0] == "dc":
            if e[1] in ("Some", "Ok"):
                return b + "?"
            return "%s↓%s" % (b, e[1])
        if e[0] == "ix":
            return "%s[%s]" % (b, show(e[1], names))
    if k == "opt":
        return "Some(%s)" % show(t[1], names)
    if k == "obj":
        return "%s#%s" % (show(t[2], names), t[3][1] if t[3] else "")
    if k == "elem":
        if t[1][0] == "iter":
            n = names.get(("tag", t[1][2]))
            before = "<" if isinstance(t[1][2], tuple) and t[1][2] and t[1][2][0] == "tag-flag<" else ""  # an element earlier in the list than the current one
            return "%s[*%s#%s]" % (show(t[1][1], names), before, n if n is not None else "?")
        return show(t[1], names) + "[*]"
    if k == "iter":
        return show(t[1], names)
    if k == "enumelem":
        return "enum(%s)[*]" % show(t[1], names)
    if k == "enumerate":
        return "enumerate(%s)" % show(t[1], names)
    if k == "idx":
        return "#" + show(t[1], names)
    if k == "len":
        return "len(%s)" % show(t[1], names)
    if k == "agg":
        nm = t[2].rsplit("::", 2)
        nm = "::".join(nm[-2:]) if t[1] == "adt" else t[1]
        return "%s(%s)" % (nm, ", ".join(show(o, names) for o in t[3]))
    if k == "call":
        if t[1] in SEARCH_FNS and len(t[2]) == 2:
            kinds = search_kinds(t[2][0])
            if kinds is not None:
                return "search{%s}(%s)" % ("|".join(sorted(kinds)), show(t[2][1], names))
        return "%s(%s)" % (short_fn(t[1]), ", ".join(show(a, names) for a in t[2]))
    if k == "bin":
        return "%s(%s, %s)" % (t[1], show(t[2], names), show(t[3], names))
    if k == "un":
        return "%s(%s)" % (t[1], show(t[2], names))
    if k == "cast":
        return "(%s as %s)" % (show(t[1], names), t[2])
    if k == "discr":
        return "discr(%s)" % show(t[1], names)
    if k == "is":
        return "is(%s, %s)" % (show(t[1], names), t[2])
    if k in ("phi", "rec") and ("phikey", t[1]) in names:
        return names[("phikey", t[1])]
    if k == "phi" and len(t[2]) == 2:
        nn = [m for m in t[2] if m[0] == "agg" and m[2].endswith("Option::None")]
        ss = [m for m in t[2] if m[0] == "agg" and m[2].endswith("Option::Some") and len(m[3]) == 1]
        if len(nn) == 1 and len(ss) == 1:
            return "maybe(%s)" % show(ss[0][3][0], names)
    if k == "phi":
        c = cursor_phi(t, names)
        if c is not None:
            return c
        c = compact_phi(t, names)
        if c is not None:
            return c
    if k == "phi":
        return "φ%s{%s}" % (("_%d" % t[1][1]) if isinstance(t[1], tuple) and len(t[1]) == 2 and isinstance(t[1][1], int) else "", " | ".join(show(v, names) for v in t[2]))
    if k == "rec":
        return "↺_%s" % (t[1][1],)
    if k == "unknown":
        return "?<%s>" % t[1]
    if k == "bottom":
        return "⊥"
    if k == "overflowed":
        return "overflowed(%s)" % show(t[1], names)
    return repr(t)


SEARCH_FNS = ("analyzer::ast::extract_target_from_node", "analyzer::ast::extract_targets_from_node")


def search_kinds(ts):
    """kinds requested by the first argument of extract_target(s)_from_node, None if not a literal set"""
    if ts[0] == "agg" and ts[1] == "adt" and not ts[3]:
        return [ts[2].rsplit("::", 1)[-1]]
    st = [ts]
    while st:
        x = st.pop()
        if isinstance(x, tuple) and x and x[0] == "agg" and x[1] == "array":
            if all(o[0] == "agg" and o[1] == "adt" and not o[3] for o in x[3]):
                return [o[2].rsplit("::", 1)[-1] for o in x[3]]
            return None
        if isinstance(x, tuple):
            st.extend(y for y in x if isinstance(y, tuple))
    return None


def _chain(t):
    steps = []
    while t[0] in ("proj", "elem"):
        steps.append(("elem",) if t[0] == "elem" else ("proj", t[2]))
        t = t[1]
    steps.reverse()
    return t, steps


def cursor_phi(t, names=None):
    """loop cursor: base | rec.step | rec.step'  renders as the regular path  base(step|step')*"""
    key = t[1]
    leaves = []
    st = list(t[2])
    while st:
        m = st.pop()
        if m[0] == "phi" and m[1] != key:
            st.extend(m[2])
        else:
            leaves.append(m)
    bases, steps = [], []
    ph = ("param", -78)
    for m in leaves:
        root, ch = _chain(m)
        if root == ("rec", key):
            if not ch:
                continue
            x = ph
            for c in ch:
                x = ("elem", x) if c[0] == "elem" else ("proj", x, c[1])
            steps.append(show(x, {ph: ""}))
        elif contains_kind(m, ("rec",)):
            return None
        else:
            bases.append(show(m, names))
    if not steps or not bases:
        return None
    bases = sorted(set(bases))
    steps = sorted(set(steps))
    b = bases[0] if len(bases) == 1 else "{%s}" % " | ".join(bases)
    return "%s(%s)*" % (b, "|".join(steps))


def compact_phi(t, names=None):
    """or-pattern bindings: the same field path below alternative variants of one node renders as base↓{A|B}.rest"""
    ms = t[2]
    if len(ms) < 2:
        return None
    chains = [_chain(m) for m in ms]
    root = chains[0][0]
    n = len(chains[0][1])
    if any(c[0] != root or len(c[1]) != n for c in chains):
        return None
    diff = [i for i in range(n) if any(c[1][i] != chains[0][1][i] for c in chains)]
    if len(diff) != 1:
        return None
    i = diff[0]
    if not all(c[1][i][0] == "proj" and c[1][i][1][0] == "dc" for c in chains):
        return None
    variants = sorted(set(c[1][i][1][1] for c in chains))
    if len(variants) != len(ms):
        return None
    # rebuild: prefix term, then the alternative step, then the common suffix rendered through a placeholder
    prefix = root
    for st in chains[0][1][:i]:
        prefix = ("elem", prefix) if st[0] == "elem" else ("proj", prefix, st[1])
    head = "%s↓{%s}" % (show(prefix, names), "|".join(variants))
    ph = ("param", -77)
    suffix = ph
    for st in chains[0][1][i + 1:]:
        suffix = ("elem", suffix) if st[0] == "elem" else ("proj", suffix, st[1])
    return show(suffix, {ph: head})


def short_fn(p):
    m = re.search(r"::<([A-Za-z0-9_]+)>$", p)
    if m:
        return short_fn(p[: m.start()]) + "::<%s>" % m.group(1)
    p = re.sub(r"<impl ([A-Za-z0-9_:\[\]]+)>", lambda m: m.group(1).replace("[T]", "slice"), p)
    p = re.sub(r"<[^<>]*>", "", p)
    p = re.sub(r"<[^<>]*>", "", p)
    parts = [x for x in p.split("::") if x]
    return "::".join(parts[-2:]) if len(parts) >= 2 else p


# ------------------------------------------------------------------ atoms from guards


VARIANT_UNIVERSE = {}  # subject term of a discriminant switch -> names of all variants of its (enum) type


def switch_atom(body, sw, labels):
    """interpret (switch block, label set) as (term, positive description)"""
    t = body.blocks[sw]["term"]
    d = body.val_operand(t["d"])
    allv = body.labels.get(sw, frozenset())
    if d[0] == "discr":
        adt = body.crate.adt_of_ty(d[2])
        names = {}
        if adt:
            for v in adt["variants"]:
                names[v["discr"] if v["discr"] is not None else v["vi"]] = v["name"]
        if adt and adt.get("kind") == "enum" and names:
            VARIANT_UNIVERSE[d[1]] = tuple(sorted(names.values()))
        explicit = set(l for l in allv if l != "else")
        pos = set()
        neg = None
        # two-variant types (Option, Result, ..): `is None` and `is not Some` are the same test; one canonical variant is used for both
        canon = other = None
        if adt and len(adt["variants"]) == 2:
            vn = [v["name"] for v in adt["variants"]]
            if sorted(vn) in (["None", "Some"], ["Err", "Ok"]):  # Option / Result only: other two-variant types are named in the specs as written
                canon = "Some" if "Some" in vn else "Ok"
                other = [x for x in vn if x != canon][0]
        if "else" in labels:
            # complement of the explicit labels not taken
            neg = sorted(names.get(x, str(x)) for x in (explicit - set(labels)))
            if canon is not None and neg == [other]:
                return ("isin", d[1], (canon,))
            return ("isnot", d[1], tuple(neg), tuple(sorted(names.get(x, str(x)) for x in labels if x != "else")))
        pos = tuple(sorted(names.get(x, str(x)) for x in labels))
        if canon is not None and pos == (other,):
            return ("isnot", d[1], (canon,), ())
        return ("isin", d[1], pos)
    # boolean / integer switch
    if t["dty"] == "bool":
        # labels: 0 -> false ; else -> true
        if labels == frozenset([0]):
            return ("false", d)
        if labels == frozenset(["else"]):
            return ("true", d)
    return ("intsw", d, tuple(sorted(str(x) for x in labels)))


def show_atom(a, names=None):
    k = a[0]
    if k == "isin":
        return "%s is %s" % (show(a[1], names), "|".join(a[2]))
    if k == "isnot":
        return "%s not %s" % (show(a[1], names), "|".join(a[2])) + ((" or is " + "|".join(a[3])) if a[3] else "")
    if k == "true":
        return show(a[1], names)
    if k == "false":
        return "!" + show(a[1], names)
    return "%s in {%s}" % (show(a[1], names), ",".join(a[2]))


def block_guard_atoms(body, bb):
    g = body.guards().get(bb)
    if g is None:
        return None
    return [[switch_atom(body, s, l) for (s, l) in sorted(conj, key=lambda x: x[0])] for conj in g]


def load_crates(facts):
    import os
    if os.environ.get("VERIF_NO_PREP"):
        return {k: Crate(v) for k, v in facts.items()}
    import prep
    return {k: Crate(prep.preprocess(v)) for k, v in facts.items()}
