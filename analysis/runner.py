"""Check runner: loads facts for the current /repo tree, runs one property's rule module on
both local crates, subtracts KNOWN_FINDINGS.txt by exact key, writes evidence, exits 0/1/2."""
import importlib, json, os, sys, time, traceback

HERE = os.path.dirname(os.path.abspath(__file__))
VERIF = os.path.dirname(HERE)
sys.path.insert(0, HERE)

import facts as factsmod
import core

EVID = os.environ.get("VERIF_EVIDENCE_DIR") or os.path.join(VERIF, "evidence")  # selftest runs write elsewhere
KNOWN = os.path.join(VERIF, "KNOWN_FINDINGS.txt")


class Ob:
    """one obligation of a rule at a site"""

    def __init__(self, rule, fn, detail, ok, site=None, expected=None, found=None, note=None, nontrivial=True, example=None):
        self.rule = rule
        self.fn = fn
        self.detail = detail
        self.ok = ok
        self.site = site
        self.expected = expected
        self.found = found
        self.note = note
        self.nontrivial = nontrivial
        self.example = example
        self.crates = set()

    def key(self, prop):
        return "%s|%s|%s|%s" % (prop, self.rule, self.fn, self.detail)

    def as_json(self, prop):
        d = {"key": self.key(prop), "rule": self.rule, "fn": self.fn, "detail": self.detail, "ok": self.ok}
        if self.fn in RENAMED:
            d["fn_in_this_tree"] = RENAMED[self.fn]  # (rules and keys use the reference tree's name of a renamed / moved function)
        for k in ("site", "expected", "found", "note", "example"):
            v = getattr(self, k)
            if v is not None:
                d[k] = v
        d["crates"] = sorted(self.crates)
        return d


RENAMED = {}  # reference name -> name in the analysed tree, for functions recognised as renamed / moved (prep.recognise_renames)


class Ctx:
    def __init__(self, tier, repo):
        self.tier = tier
        self.repo = repo
        f = factsmod.load(repo)
        self.crates = core.load_crates(f)
        self.lib = self.crates["lib"]
        self.bin = self.crates["bin"]
        self.notes = []
        for c in self.crates.values():
            for ref_, cur_ in (c.data.get("renamed") or {}).items():
                RENAMED[ref_] = cur_
            for line in c.data.get("prep_log", []):
                if line not in self.notes:
                    self.notes.append("prep: " + line)
        self.analysed = {}

    def read(self, rel):
        with open(os.path.join(self.repo, rel), encoding="utf-8") as fh:
            return fh.read()


def load_known():
    findings, fixed = {}, []
    if os.path.exists(KNOWN):
        for line in open(KNOWN, encoding="utf-8"):
            line = line.strip()
            if not line or line.startswith("#"):
                continue
            if line.startswith("finding:"):
                rest = line[len("finding:"):].strip()
                parts = rest.split(" ", 2)
                kv = {}
                for p in parts[:2]:
                    if "=" in p:
                        a, b = p.split("=", 1)
                        kv[a] = b
                # key may contain spaces: it is delimited by key=<...> up to " :: "
                if " key=" in rest and " :: " in rest:
                    k = rest.split(" key=", 1)[1].split(" :: ", 1)[0]
                    what = rest.split(" :: ", 1)[1]
                    findings[k] = (kv.get("property"), what)
            elif line.startswith("fixed:"):
                fixed.append(line)
    return findings, fixed


def run_check(prop, tier="quick", repo=None, ctx=None):
    t0 = time.time()
    repo = repo or factsmod.REPO
    tier = os.environ.get("VERIF_TIER") or tier
    if tier not in ("quick", "thorough"):
        tier = "quick"
    seed = int(os.environ.get("VERIF_SEED", "0") or 0)
    os.makedirs(os.path.join(EVID, "replay"), exist_ok=True)
    try:
        if ctx is None:
            ctx = Ctx(tier, repo)
        else:
            ctx.notes = [n_ for n_ in ctx.notes if n_.startswith("prep: ")]
            ctx.analysed = {}
    except factsmod.NoFacts as e:
        print("ERROR property=%s no facts: %s" % (prop, e))
        return 2
    mod = importlib.import_module("rules." + prop)
    allobs = {}
    errors = []
    per_crate_counts = {}
    for cname in ("lib", "bin"):
        crate = ctx.crates[cname]
        try:
            obs = mod.run(ctx, crate)
        except Exception as e:  # fail closed: an engine failure is not a pass
            traceback.print_exc()
            errors.append("%s: %s: %s" % (cname, type(e).__name__, e))
            obs = []
        per_crate_counts[cname] = len(obs)
        for o in obs:
            k = o.key(prop)
            if k in allobs:
                allobs[k].crates.add(cname)
                if not o.ok:
                    allobs[k].ok = False
            else:
                o.crates.add(cname)
                allobs[k] = o
    obs = list(allobs.values())
    meta = getattr(mod, "META", {})
    # floors: fail closed when a rule matched fewer instances than were confirmed by hand
    floor_fail = []
    counts = {}
    for o in obs:
        counts[o.rule] = counts.get(o.rule, 0) + 1
    for rule, floor in meta.get("floors", {}).items():
        if counts.get(rule, 0) < floor:
            floor_fail.append("%s: %d instance(s) < floor %d" % (rule, counts.get(rule, 0), floor))
    known, fixed = load_known()
    viol = [o for o in obs if not o.ok]
    new_viol, known_hit = [], []
    for o in viol:
        k = o.key(prop)
        if k in known and known[k][0] == prop:
            known_hit.append((o, known[k][1]))
        else:
            new_viol.append(o)
    status = 0
    for (o, what) in known_hit:
        print("KNOWN-FINDING: property=%s %s [%s]" % (prop, what, o.key(prop)))
    n = 0
    for o in sorted(new_viol, key=lambda o: o.key(prop)):
        n += 1
        rp = os.path.join(EVID, "replay", "%s-%d.json" % (prop, n))
        with open(rp, "w") as fh:
            json.dump(o.as_json(prop), fh, indent=1, ensure_ascii=False)
        print("VIOLATION property=%s replay=%s" % (prop, rp))
        print("  rule=%s fn=%s%s %s" % (o.rule, o.fn, (" (in this tree: %s)" % RENAMED[o.fn]) if o.fn in RENAMED else "", o.detail))
        if o.site:
            print("  at %s" % o.site)
        if o.expected is not None:
            print("  expected: %s" % (o.expected,))
        if o.found is not None:
            print("  found:    %s" % (o.found,))
        status = 1
    for e in errors + floor_fail:
        n += 1
        rp = os.path.join(EVID, "replay", "%s-%d.json" % (prop, n))
        with open(rp, "w") as fh:
            json.dump({"key": "%s|engine|%s" % (prop, e), "error": e}, fh)
        print("VIOLATION property=%s replay=%s" % (prop, rp))
        print("  fail-closed: %s" % e)
        status = 1
    # evidence
    level = meta.get("level", "other")
    if level == "proof" and (viol or errors or floor_fail):
        level = "other"
    nontriv = set(o.key(prop) for o in obs if o.nontrivial)
    samples = [o.as_json(prop) for o in obs[:: max(1, len(obs) // 12)]][:14]
    for o in viol[:8]:
        samples.append(o.as_json(prop))
    cov = {
        "evaluations": sum(per_crate_counts.values()),
        "distinct_nontrivial": len(nontriv),
        "rule": meta.get("rule", ""),
        "samples": samples,
        "obligations": len(obs),
        "discharged": len([o for o in obs if o.ok]),
        "checker_cmd": "bin/check %s --tier %s" % (prop, tier),
        "trusted_base": meta.get("trusted_base", []),
        "explanation": meta.get("explanation", ""),
        "exhaustive": True,
        "crates_analysed": {c: {"bodies": len(ctx.crates[c].bodies), "obligations": per_crate_counts.get(c, 0)} for c in ("lib", "bin")},
        "rule_instances": counts,
        "floors": meta.get("floors", {}),
        "known_findings_matched": [o.key(prop) for (o, _) in known_hit],
        "notes": ctx.notes,
        "analysed": ctx.analysed,
    }
    ev = {
        "property_id": prop,
        "tier": tier,
        "seed": seed,
        "level": level,
        "coverage": cov,
        "assumptions": meta.get("assumptions", []),
        "wall_s": round(time.time() - t0, 3),
        "violations": len(new_viol) + len(errors) + len(floor_fail),
    }
    with open(os.path.join(EVID, "%s.json" % prop), "w") as fh:
        json.dump(ev, fh, indent=1, ensure_ascii=False)
    print("%s: %d obligations, %d discharged, %d known finding(s), %d violation(s) [%s, %.1fs]" % (
        prop, len(obs), len([o for o in obs if o.ok]), len(known_hit), len(new_viol) + len(errors) + len(floor_fail), tier, time.time() - t0))
    return status


def main(argv):
    import argparse
    ap = argparse.ArgumentParser()
    ap.add_argument("prop")
    ap.add_argument("--tier", default="quick")
    ap.add_argument("--repo", default=None)
    ap.add_argument("--explain", default=None)
    a = ap.parse_args(argv)
    global EVID
    if a.repo and os.path.realpath(a.repo) != os.path.realpath(factsmod.REPO) and not os.environ.get("VERIF_EVIDENCE_DIR"):
        # a run against a scratch copy (checker validation) must not overwrite the evidence of the repository itself
        EVID = "/tmp/selftest-evidence"
        os.makedirs(EVID, exist_ok=True)
    if a.explain:
        print(open(a.explain).read())
        return 0
    if a.prop == "ALL" or "," in a.prop:
        # checker-validation aid (selftest): several properties on one load of the facts; prints "FIRED: .." and exits 1 if any fired
        import registry
        props = sorted(registry.CHECKS) if a.prop == "ALL" else a.prop.split(",")
        try:
            ctx = Ctx(a.tier, a.repo or factsmod.REPO)
        except factsmod.NoFacts as e:
            print("ERROR no facts: %s" % e)
            return 2
        fired = []
        for p in props:
            if run_check(p, a.tier, a.repo, ctx) != 0:
                fired.append(p)
        print("FIRED: %s" % (" ".join(fired) or "none"))
        return 1 if fired else 0
    return run_check(a.prop, a.tier, a.repo)


if __name__ == "__main__":
    sys.exit(main(sys.argv[1:]))
