"""Parse-tree shape oracle computed from the ADT facts (DESIGN 4.1): node types, children(variant)."""
from core import mk_proj, show

NODE_ENUM = "analyzer::ast::Node"


class Tree:
    def __init__(self, crate):
        self.crate = crate
        self.adts = crate.adts
        node = self.adts.get(NODE_ENUM)
        self.ok = node is not None
        self.wrappers = {}  # wrapper variant -> payload type path
        if not self.ok:
            return
        for v in node["variants"]:
            f = v["fields"]
            if len(f) == 1 and "adt" in f[0]["ty"]:
                self.wrappers[v["name"]] = f[0]["ty"]["adt"]
        self.ntypes = set(self.wrappers.values())
        self.wrapper_of = {t: w for w, t in self.wrappers.items()}
        self.yul = self._yul_types()

    def _reach(self, roots, stop=()):
        seen = set()
        st = list(roots)
        while st:
            t = st.pop()
            for a in self._adts_in(t):
                if a in seen or a in stop:
                    continue
                seen.add(a)
                d = self.adts.get(a)
                if d and d["deep"]:
                    for v in d["variants"]:
                        for f in v["fields"]:
                            st.append(f["ty"])
        return seen

    def _adts_in(self, tt):
        out = []
        if "adt" in tt:
            out.append(tt["adt"])
            for a in tt["args"]:
                out += self._adts_in(a)
        for k in ("ref", "ptr", "slice", "array"):
            if k in tt:
                out += self._adts_in(tt[k])
        if "tuple" in tt:
            for a in tt["tuple"]:
                out += self._adts_in(a)
        return out

    def _yul_types(self):
        """types reachable from Statement::Assembly and from no other variant of a node type"""
        st = self.adts.get("solang_parser::pt::Statement")
        if not st:
            return set()
        asm, other = [], []
        for t in self.ntypes:
            d = self.adts.get(t)
            if not d:
                continue
            for v in d["variants"]:
                for f in v["fields"]:
                    if t == "solang_parser::pt::Statement" and v["name"] == "Assembly":
                        asm.append(f["ty"])
                    else:
                        other.append(f["ty"])
        return self._reach(asm, self.ntypes) - self._reach(other, self.ntypes)

    def children_of_type(self, tt, base, visiting=()):
        """ordered [(term, node type)] of the node-typed values inside a value of type tree `tt` at term `base`"""
        if "adt" in tt:
            p = tt["adt"]
            if p in self.ntypes:
                return [(base, p)]
            if p == "std::boxed::Box":
                return self.children_of_type(tt["args"][0], base, visiting)
            if p == "std::vec::Vec":
                return self.children_of_type(tt["args"][0], ("elem", base), visiting)
            if p == "std::option::Option":
                return self.children_of_type(tt["args"][0], mk_proj(mk_proj(base, ("dc", "Some")), ("f", 0, "0")), visiting)
            d = self.adts.get(p)
            if d is None or not d["deep"] or p in self.yul or p in visiting:
                return []
            out = []
            for v in d["variants"]:
                vb = base if d["kind"] != "enum" else mk_proj(base, ("dc", v["name"]))
                for i, f in enumerate(v["fields"]):
                    out += self.children_of_type(f["ty"], mk_proj(vb, ("f", i, f["name"])), visiting + (p,))
            return out
        if "tuple" in tt:
            out = []
            for i, a in enumerate(tt["tuple"]):
                out += self.children_of_type(a, mk_proj(base, ("f", i, None)), visiting)
            return out
        return []

    def variants(self, ntype):
        d = self.adts[ntype]
        return d["variants"], d["kind"]

    def children(self, ntype, variant, payload):
        """children of variant `variant` of node type `ntype`, as terms rooted at `payload`"""
        d = self.adts[ntype]
        for v in d["variants"]:
            if v["name"] == variant:
                vb = payload if d["kind"] != "enum" else mk_proj(payload, ("dc", v["name"]))
                out = []
                for i, f in enumerate(v["fields"]):
                    out += self.children_of_type(f["ty"], mk_proj(vb, ("f", i, f["name"])), (ntype,) if False else ())
                return out
        return None
