import sys, os
sys.path.insert(0, os.path.dirname(__file__))
import facts, core
F = facts.load()
C = core.load_crates(F)
cr = C[sys.argv[1]]
for name in sys.argv[2:]:
    b = cr.body(name)
    if b is None:
        print("no body", name); continue
    print("==", b.path)
    for (bb, t) in b.calls:
        fn = b.callee(t)
        p = fn["path"] if fn else "<indirect>"
        args = [core.show(b.val_operand(a)) for a in t["args"]]
        g = core.block_guard_atoms(b, bb)
        gs = " || ".join(" && ".join(core.show_atom(a) for a in conj) for conj in g)
        print("  bb%d @%d %s(%s)\n        when %s" % (bb, b.blocks[bb]["tloc"]["line"], core.short_fn(p), ", ".join(args), gs))
    print("  return:", core.show(b.val_local(0)))
