"""Print the extracted summary of every dispatched detector (debug / authoring aid for specs)."""
import sys, os
sys.path.insert(0, os.path.dirname(__file__))
import facts, core, sites as S, summary, boolalg as B
from rules import detectors as D
C = core.load_crates(facts.load())["lib"]
sm = summary.Summ(C)
only = sys.argv[1:]
for cat, d in D.all_dispatch(C).items():
    for v, s in sorted(d.table.items()):
        b = C.bodies.get(s.resolved) or C.bodies.get(s.path)
        if only and not any(o in b.path for o in only):
            continue
        print("==", cat, v, b.path)
        try:
            for (t, f, site) in sm.reports(b):
                print("   REPORT", core.show(t))
                print("     WHEN", B.show(sm.render(f)))
        except summary.Unanalysable as e:
            print("   UNANALYSABLE", e)
