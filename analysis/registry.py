"""What MANIFEST.json claims, per property (bin/mkmanifest turns this into MANIFEST.json)."""
NOTES = ("All checks are static: they decide from /repo's current sources (type-checked MIR of both local crates, the parser's ADT "
         "definitions, docs tables, Solstat.toml) without running solstat. bin/check <id> re-extracts facts whenever the tree changes.")

_MIR = "trusted: rustc's MIR construction, the fact extractor, the Python engines (CFG, provenance, guards); std API contracts named in the evidence"

CHECKS = {
    "C01": dict(level="proof", design_ref="5/C01", technique="structural induction: traversal obligations generated from the parser's ADT definitions, discharged on the walker's MIR by access-path provenance and guard analysis (static analysis)",
                text="Proof by structural induction over the parse tree: for each of the 99 variants of the five node types the obligations (every node-typed child "
                     "recursed into exactly once, in source order, unconditionally; single guarded pre-order push; every recursive result appended; result returned; "
                     "classification tables injective and name-agreeing; entry points pass the requested kinds unchanged) are generated from the ADT definitions "
                     "and each is discharged on the MIR; obligations == discharged is required.",
                note="trusted: rustc MIR construction, the extractor and engines, std Vec/HashSet/Option contracts, field order = source order for solang-parser 0.1.18; inline assembly excluded by type"),
    "C02": dict(level="other", design_ref="5/C02", technique="provenance of the line-lookup operands + range analysis and canonical-form recognition of the counting function (static analysis)",
                text="Decides the plumbing (Loc::start of every element of the detector's result, looked up in the very text that was parsed, every location converted), "
                     "that no returned line is < 1, and recognises the counting function as the canonical 1 + #LF-before-offset over bytes; which node each detector reports "
                     "is decided by C05-C09. Outside the canonical form the arithmetic is not decided and the check fails closed.",
                note=_MIR + "; Loc::start = first byte of the construct; std iterator semantics"),
    "C03": dict(level="other", design_ref="5/C03", technique="MIR dataflow: accumulator mutation discipline + provenance of merge keys (static analysis)",
                text="Structural: in each of the three analyze_dir the returned map is only ever extended per key (entry/or_insert/push|append), the recursion "
                     "passes the same patterns and its result is merged under its own keys, the per-file result is pushed under the pattern that produced it. "
                     "Decides the merge discipline for all trees and listing orders; does not model what read_dir lists.",
                note=_MIR + "; HashMap::entry/Vec::push/append semantics"),
    "C04": dict(level="other", design_ref="5/C04", technique="enumeration of panic-capable MIR sites over the call graph from analyze_for_*, each discharged by a dominating-guard rule, a node-kind reachability argument, an arithmetic range rule or a keyed justification; loop/recursion termination rules (static analysis)",
                text="Every unwrap/expect/index/diverging call and every overflow/bounds/division assert reachable from the three per-file entry points is enumerated "
                     "(152 today) and must be discharged; loops must be finite-iterator or strictly descending cursor loops; recursion only in the walker on strict "
                     "sub-terms. Decides absence of local panics for all accepted files; panics inside dependencies and stack depth are not decided.",
                note=_MIR + "; specs/c04_justified.json (9 reasoned entries with mechanical side conditions); dependencies total on valid arguments"),
    "C05": dict(level="other", design_ref="5/C05 + section 8.1", technique="detector summaries (reported access path + guard formula) extracted from MIR and compared with the written spec by ROBDD implication (static analysis; validation of code against specs/detectors.spec)",
                text="For each of the 11 detectors: the reported locations and their conditions as formulas over access-path atoms (helpers and flags expanded) satisfy "
                     "MUST => code => MUST-NOT envelope of DESIGN section 8.1; searched kinds and roots are part of the paths. increment_decrement: ALL minus EXEMPT with "
                     "EXEMPT = prefix forms below statements of unchecked blocks. The numeric meaning of power-of-two is std's is_power_of_two on the parsed literal.",
                note=_MIR + "; the oracle is specs/detectors.spec (DESIGN section 8); C01 for 'anywhere in the file'"),
    "C06": dict(level="other", design_ref="5/C06 + section 8.2", technique="detector summaries vs written spec by ROBDD implication, summary of the shared state-variable table, cross-item isolation rules over loops (static analysis)",
                text="The five declaration-level detectors satisfy MUST => code => envelope of DESIGN section 8.2 (condition and reported location), the shared "
                     "state-variable table enters exactly the specified members, and a verdict depends only on the declaration's own contract: bound witnesses range "
                     "over the same contract, no mutable local is carried across a file-wide loop, no file-wide loop is left early.",
                note=_MIR + "; specs/detectors.spec is the oracle; unique state-variable names (property quantifier)"),
    "C07": dict(level="other", design_ref="5/C07 + section 8.3", technique="detector summaries with expanded helper predicates (own bound variables), loop cursors as regular access paths, compared with the written spec by ROBDD implication (static analysis)",
                text="The four vulnerability detectors satisfy MUST => code => envelope of DESIGN section 8.3, including unprotected_selfdestruct's visibility filter, "
                     "constructor skip, 'only' modifier test and protective-call scan with its skip set, and the regular left-spine paths of divide_before_multiply.",
                note=_MIR + "; specs/detectors.spec is the oracle; C01 for completeness of the searches"),
    "C08": dict(level="other", design_ref="5/C08 + section 8.4", technique="candidate-table analysis: searched write kinds derived from the ADT, per-kind removing consumers, search roots, table provenance, helper summaries vs spec (static analysis)",
                text="For constant_variables, immutable_variables and memory_to_calldata: all 15 write kinds are searched with the right root, every kind has a consumer "
                     "that removes the directly written identifier from the candidate table under the kind tests only, nothing re-enters the table, the remaining "
                     "candidates are all reported after the removals; the candidate helpers (state-variable table, constructor-assigned, memory parameters) and sstore "
                     "equal their specs. With C01 this gives: never suggested if written anywhere, always suggested if never written.",
                note=_MIR + "; unique, unshadowed names (property quantifier); C01"),
    "C09": dict(level="other", design_ref="5/C09", technique="gate formulas extracted from MIR guards, evaluated as formulas over the version triple against the lexicographic spec on a finite grid; guard analysis of the pragma selection (static analysis)",
                text="Decides each gate as a boolean formula over (major, minor, patch) — exactly on the partition the constants induce (quick) and on the whole grid "
                     "0.0.0..2.12.41 (thorough) — complementarity of pre/post, that only a directive named solidity yields a version, and that no version means no report. "
                     "The regex extraction of the triple from the pragma text is not decided.",
                note=_MIR + "; lexicographic PartialOrd of tuples; regex behaviour"),
    "C10": dict(level="other", design_ref="5/C10", technique="table extraction (size function), guarded-update transition system of the slot counter compared with the reference greedy system, site-level ordering of clone/sort/compare (static analysis)",
                text="Decides that the size table equals the specified one for every variant of pt::Type, that the counter's guarded updates are exactly the reference "
                     "greedy system (syntactic equality after normalisation, so the arithmetic over all sequences is the reference's), and that both packing detectors "
                     "report iff slots(declared order) > slots(sorted permutation of the same list), reporting the container's own location.",
                note=_MIR + "; slice::sort permutes; the greedy rule is Solidity's layout rule"),
    "C11": dict(level="other", design_ref="5/C11", technique="MIR provenance of string pieces + dispatch-table extraction (static analysis)",
                text="Structural: section dispatch total/injective/name-agreeing for all 30 patterns, entry = '- ' file ':' line '\\n' built from the current loop "
                     "elements for every (file, line) without filter, list created per pattern and appended after that pattern's section, section iff non-empty, "
                     "no entry-shaped line in any literal, three blocks concatenated into the single write.",
                note=_MIR + "; String::push_str/+ append"),
    "C12": dict(level="other", design_ref="5/C12", technique="MIR def-use of the counter, guard extraction, literal contradiction rule (static analysis)",
                text="Structural: one +1 per appended entry and nowhere else, overview gets the final total, each category block guarded by its own map's "
                     "non-emptiness, severity table equals the specified one, each severity buffer emitted iff it differs from exactly its own initial literal.",
                note=_MIR),
    "C13": dict(level="other", design_ref="5/C13", technique="order-taint analysis over MIR: hash/listing/discovery-ordered sources to ordered sinks with sort sanitizers (static analysis)",
                text="Absence property over the call graph from main: no hash-, listing- or discovery-ordered iteration reaches an order-sensitive sink "
                     "(String append, Vec push on an object outliving the loop) without a total sort; no early exit from such loops; no per-process seeds.",
                note=_MIR + "; slice::sort*/BTree ordering contracts"),
    "C14": dict(level="other", design_ref="5/C14", technique="table extraction from MIR (eq-chains, default lists, enum variants) cross-checked with docs tables and Solstat.toml; guard/def-table analysis of Opts::new (static analysis)",
                text="Decides agreement of five hand-maintained tables per category (name match, enum, default list, docs, sample config), case-insensitivity "
                     "(comparison on to_lowercase), divergence on unknown names before any analysis, list selection with/without --toml, use of every config field, "
                     "and the precedence --path > toml path > ./contracts as guards of the definitions of Opts.path.",
                note=_MIR + "; clap / toml / serde behaviour"),
    "C15": dict(level="other", design_ref="5/C15", technique="purity / effect analysis over the call graph from analyze_for_*: statics, effectful callees, flow of the file index, order-sensitivity of hash-ordered loops (static analysis)",
                text="Absence properties over a finite call graph (78 bodies): no shared mutable state, no effectful callee, the file index reaches only the parser, "
                     "Loc's file field is never read, hash-ordered loops in detectors feed only order-insensitive sinks, the per-file call sees only its own file. "
                     "A pure function of (content, pattern) is independent of co-selection, repetition, position and thread interleaving.",
                note=_MIR + "; purity of solang_parser::parse and regex is trusted"),
    "C16": dict(level="other", design_ref="5/C16", technique="guard-DNF extraction at the file read + dominance of the filter over every content access (static analysis)",
                text="The guard of the only content read in each analyze_dir equals !is_dir && ends_with(name,'.sol') && !ends_with(lower(name),'.t.sol') with name "
                     "the final path component; every content access is under it; before it only listing/name conversions can fail; three siblings identical.",
                note=_MIR + "; str::ends_with/to_lowercase contracts; valid-Unicode names"),
    "C17": dict(level="other", design_ref="5/C17", technique="text-confinement and Loc-opacity analysis: flow of the raw text parameter, detector signatures, Loc accessor inventory (static analysis)",
                text="Decides the structural part: detectors cannot observe layout or comments (they receive only the tree; locations are opaque inside them; the comment "
                     "list is dropped; the text reaches only the parser and the line lookup). Does not decide that the parser is layout-invariant (trusted).",
                note=_MIR + "; parser layout invariance trusted"),
    "C18": dict(level="other", design_ref="5/C18", technique="effect inventory over resolved callees of both crates + post-dominance of the single write (static analysis)",
                text="Every std::fs/io/process/env/net/os callee of both local crates is inventoried; the only write-capable one is fs::write to the literal "
                     "solstat_report.md, on every path through generate_report and main, after the analysis; analysis code is read-only.",
                note=_MIR + "; std::fs::write truncates; dependencies do not write files"),
    "C19": dict(level="other", design_ref="5/C19", technique="cross-item channel analysis: loop-carried state / early exits / search roots per loop, and scope of the bound witnesses in each extracted report condition (static analysis)",
                text="For every detector except the two SafeMath ones (and the helpers they reach): file-wide loops carry no mutable state and run to exhaustion, "
                     "no whole-file search sits inside a per-item loop, and every witness a report condition quantifies over is reached from the reported node's own "
                     "top-level item; the remaining file-wide inputs are the pragma lookup, name-keyed state-variable tables and identity-keyed location sets.",
                note=_MIR + "; items do not share state-variable names (property quantifier); C01"),
}

NOT_APPLICABLE = {}
