"""Call sites with argument terms and normalised guards; call graph; atom normalisation."""
import json
import core
from core import show, short_fn


class Site:
    def __init__(self, body, bb, term):
        self.body = body
        self.bb = bb
        self.term = term
        fn = body.callee(term)
        self.fn = fn
        self.path = fn["path"] if fn else "<indirect>"
        self.resolved = (fn.get("resolved") if fn else None) or self.path
        self.krate = (fn.get("resolved_krate") or fn.get("krate")) if fn else None
        self.local = bool(fn and (fn.get("resolved_local") or fn.get("local")))
        self.line = body.blocks[bb]["tloc"]["line"]
        self.file = body.blocks[bb]["tloc"]["file"]
        self.exp = body.blocks[bb]["tloc"].get("exp", False)
        self._args = None
        self._guard = None

    @property
    def args(self):
        if self._args is None:
            self._args = [through_lists(self.body, self.body.val_operand(a)) for a in self.term["args"]]
        return self._args

    @property
    def result(self):
        return through_lists(self.body, self.body.val_call(self.term, (), self.bb))

    @property
    def where(self):
        return "%s:%d" % (self.file, self.line)

    @property
    def guard(self):
        """DNF: list of conjunctions; a conjunction is a sorted list of signed atom strings"""
        if self._guard is None:
            self._guard = block_guard(self.body, self.bb)
        return self._guard

    def diverges(self):
        return self.term["t"] is None

    def __repr__(self):
        return "<%s %s(%s) @%s>" % (self.body.path.rsplit("::", 1)[-1], short_fn(self.path), ", ".join(show(a) for a in self.args), self.where)


def call_sites(body):
    return [Site(body, bb, t) for (bb, t) in body.calls]


def mutable_borrows_of_result(body, site):
    """lines at which a `&mut` borrow is taken of the value a call returned (directly or after plain moves / copies of it): the value model follows
    objects by where they were created, so a result that is edited in place before it is used would still look like the call's result"""
    t = site.term
    if not t.get("dest") or t["dest"]["pr"]:
        return []
    alias = {t["dest"]["l"]}
    changed = True
    while changed:
        changed = False
        for bb in body.reach:
            for st in body.blocks[bb]["stmts"]:
                if st["k"] == "assign" and not st["p"]["pr"] and st["rv"]["k"] == "use" and st["rv"]["o"]["k"] in ("move", "copy") \
                        and not st["rv"]["o"]["p"]["pr"] and st["rv"]["o"]["p"]["l"] in alias and st["p"]["l"] not in alias:
                    alias.add(st["p"]["l"])
                    changed = True
    out = []
    for bb in body.reach:
        for st in body.blocks[bb]["stmts"]:
            if st["k"] == "assign" and st["rv"]["k"] == "ref" and st["rv"].get("mut") and st["rv"]["p"]["l"] in alias:
                out.append(st["loc"]["line"])
    return sorted(set(out))


# ------------------------------------------------------------------ work lists
# `let mut later = vec![]; for e in xs { if c(e) { later.push(f(e)) } } .. for y in later { g(y) }`: a list that is created empty, filled by exactly one
# push and otherwise only iterated over is a queue of the pushed values. An element of it IS a pushed value, and code that runs for an element runs
# under the condition under which that value was pushed (the two loops run one after the other over the same elements, filtered by c).

_NEUTRAL_USES = ("len", "iter", "into_iter", "is_empty", "deref", "next", "drop", "as_slice", "capacity")


def single_push_lists(body):
    """{list term: (block of the push, pushed value)}"""
    c = getattr(body, "_single_push_lists", None)
    if c is not None:
        return c
    body._single_push_lists = {}  # (guards against re-entry while the sites below are evaluated)
    uses = {}
    raw = []
    for (bb, t) in body.calls:
        fn = body.callee(t)
        if not fn or not t["args"]:
            continue
        a0 = body.val_operand(t["args"][0])
        while a0[0] in ("iter",):
            a0 = a0[1]
        raw.append((bb, t, fn, a0))
    for (bb, t, fn, a0) in raw:
        if a0[0] == "call" and a0[1].startswith("std::vec::Vec::") and a0[1].rsplit("::", 1)[-1] in ("new", "with_capacity") and a0[3] and a0[3][0] == body.path:
            uses.setdefault(a0, []).append((bb, t, fn))
    out = {}
    for L, us in uses.items():
        pushes = [(bb, t) for (bb, t, fn) in us if fn["path"] == "std::vec::Vec::<T, A>::push" and len(t["args"]) == 2]
        others = [(bb, t, fn) for (bb, t, fn) in us if fn["path"].rsplit("::", 1)[-1] not in _NEUTRAL_USES and fn["path"] != "std::vec::Vec::<T, A>::push"]
        if len(pushes) != 1 or others:
            continue
        pbb, pt = pushes[0]
        # the list must not escape (be returned, stored or passed on whole): every mention of it is one of the uses seen above
        v = body.val_operand(pt["args"][1])
        if contains_term(v, L) or body.val_local(0) == L:
            continue
        # the list is created, filled by one loop and then read by loops that come after it, all at the same nesting: created outside the filling loop,
        # never read while it is being filled, not carried over from one round of an enclosing loop to the next
        pl = body.loops_of(pbb)
        cbb = L[3][1]
        if not pl or list(body.loops_of(cbb)) != list(pl[:-1]):
            continue
        ok = True
        for (bb, t, fn) in us:
            if fn["path"] == "std::iter::Iterator::next":
                cl = body.loops_of(bb)
                if not cl or list(cl[:-1]) != list(pl[:-1]) or cl[-1] == pl[-1] or not body.reaches(pl[-1], cl[-1]) or body.dominates(pl[-1], cl[-1]) is False:
                    ok = False
        if ok:
            out[L] = (pbb, v)
    body._single_push_lists = out
    return out


def contains_term(t, x):
    if t == x:
        return True
    if isinstance(t, tuple):
        return any(contains_term(y, x) for y in t if isinstance(y, tuple))
    return False


_RAW = [0]


class raw_terms:
    """inside this context sites report their arguments as written (the summary engine has its own treatment of lists that carry reports)"""
    def __enter__(self):
        _RAW[0] += 1

    def __exit__(self, *a):
        _RAW[0] -= 1


def through_lists(body, t):
    """replace `element of a work list` by the value that was pushed"""
    if _RAW[0]:
        return t
    sp = single_push_lists(body)
    if not sp:
        return t

    def rw(x):
        if not isinstance(x, tuple) or not x:
            return x
        if x[0] == "elem":
            L = x[1][1] if x[1][0] == "iter" else x[1]
            if L in sp:
                return sp[L][1]
        if x[0] in ("const", "param", "rec", "unknown", "bottom"):
            return x
        if x[0] == "proj" and len(x) == 3:
            base = rw(x[1])
            return core.mk_proj(base, x[2]) if base != x[1] else x  # (a field of a queued tuple is that component)
        return tuple(rw(y) if isinstance(y, tuple) else y for y in x)
    return rw(t)


def work_list_of_block(body, bb):
    """push blocks of the work lists whose consuming loops contain bb"""
    sp = single_push_lists(body)
    if not sp:
        return []
    out = []
    for (cbb, t) in body.calls:
        fn = body.callee(t)
        if not fn or fn["path"] != "std::iter::Iterator::next" or not t["args"]:
            continue
        heads = body.loops_of(cbb)
        if not heads or bb not in body.loops.get(heads[-1], ()):
            continue
        it = body.val_operand(t["args"][0])
        while it[0] == "iter":
            it = it[1]
        if it in sp and sp[it][0] not in body.loops.get(heads[-1], ()):
            out.append(sp[it][0])
    return out


# ------------------------------------------------------------------ atoms


def bool_term_atom(t, pol=True, names=None):
    """signed atom string for a boolean-valued term"""
    while t[0] == "un" and t[1] == "Not":
        t = t[2]
        pol = not pol
    if t[0] == "const" and t[1] == "bool":
        return ("const", t[2] == pol)
    if t[0] == "is":
        if t[1][0] == "opt":
            return ("const", pol)
        return (pol, "is(%s; %s)" % (show(t[1], names), t[2]))
    if t[0] == "bin":
        op, a, b = t[1], t[2], t[3]
        if op in ("Eq", "Ne"):
            a = a[2] if a[0] == "obj" else a
            b = b[2] if b[0] == "obj" else b
        if a[0] == "const" and b[0] != "const":
            a, b = b, a
            op = {"Lt": "Gt", "Gt": "Lt", "Le": "Ge", "Ge": "Le"}.get(op, op)
        if op == "Ne":
            op, pol = "Eq", not pol
        if op == "Le":
            op, pol = "Gt", not pol
        if op == "Lt":
            op, pol = "Ge", not pol
        if a[0] == "len" and b[0] == "const" and b[1] == "int":
            # lengths are unsigned: len == 0  <=>  !(len > 0) ;  len >= 1  <=>  len > 0
            if op == "Eq" and b[2] == 0:
                op, pol = "Gt", not pol
            elif op == "Ge" and b[2] == 1:
                op, b = "Gt", ("const", "int", 0)
            elif op == "Ge" and b[2] == 0:
                return ("const", pol)
        return (pol, "%s(%s, %s)" % (op.lower(), show(a, names), show(b, names)))
    if t[0] == "call":
        return (pol, "%s(%s)" % (short_fn(t[1]), ", ".join(show(a, names) for a in t[2])))
    if t[0] == "phi":
        return (pol, "flag(%s)" % (show(t, names)))
    return (pol, show(t, names))


def norm_atom(a, names=None):
    """-> ('const', bool) | (polarity, string)"""
    k = a[0]
    if k == "isin":
        if a[1][0] == "opt":
            return ("const", True)
        return (True, "is(%s; %s)" % (show(a[1], names), "|".join(a[2])))
    if k == "isnot":
        if a[1][0] == "opt":
            return ("const", True)
        return (False, "is(%s; %s)" % (show(a[1], names), "|".join(a[2])))
    if k == "true":
        return bool_term_atom(a[1], True, names)
    if k == "false":
        return bool_term_atom(a[1], False, names)
    if k == "intsw":
        return (True, "in(%s; %s)" % (show(a[1], names), ",".join(a[2])))
    return (True, repr(a))


_ACC = {}


def accessor_subject(crate, subj):
    """for the result of an accessor `fn(x) -> Option<..> { match x { W(p) => Some(p), _ => None } }` (Node::expression and its like, recognised on
    the function's own body): (x, W, known) where `known` says that x is what a search for kinds of node type W only returned; else None"""
    if subj[0] != "phi" or len(subj[2]) != 2 or not (isinstance(subj[1], tuple) and len(subj[1]) == 2 and subj[1][1] == 0):
        return None
    path = subj[1][0]
    key = (id(crate), path)
    if key not in _ACC:
        w = None
        tb = crate.bodies.get(path)
        try:
            if tb is not None and tb.arg_count == 1 and tb.local_ty(0).startswith("std::option::Option<"):
                rows = ret_table(tb)
                some = [(g, v) for (g, v) in rows if v[0] == "agg" and v[2].endswith("Option::Some") and len(v[3]) == 1]
                none = [(g, v) for (g, v) in rows if v[0] == "agg" and v[2].endswith("Option::None")]
                if len(rows) == 2 and len(some) == 1 and len(none) == 1:
                    pay = some[0][1][3][0]
                    if pay[0] == "proj" and pay[2][0] == "f" and pay[2][1] == 0 and pay[1][0] == "proj" and pay[1][2][0] == "dc" and pay[1][1] == ("param", 1):
                        cand = pay[1][2][1]
                        if some[0][0] == [["is(arg1; %s)" % cand]] and none[0][0] == [["!is(arg1; %s)" % cand]]:
                            w = cand
        except Exception:
            w = None
        _ACC[key] = w
    w = _ACC[key]
    if w is None:
        return None
    some = [m for m in subj[2] if m[0] == "agg" and m[2].endswith("Option::Some") and len(m[3]) == 1]
    none = [m for m in subj[2] if m[0] == "agg" and m[2].endswith("Option::None")]
    if len(some) != 1 or len(none) != 1:
        return None
    x = some[0][3][0]
    if not (x[0] == "proj" and x[2][0] == "f" and x[2][1] == 0 and x[1][0] == "proj" and x[1][2] == ("dc", w)):
        return None
    n = x[1][1]
    known = False
    if n[0] == "elem":
        src = n[1][1] if n[1][0] == "iter" else n[1]
        if src[0] == "call" and src[1] in core.SEARCH_FNS and len(src[2]) == 2:
            kinds = core.search_kinds(src[2][0])
            wr = kind_wrappers(crate)
            known = bool(kinds and wr and all(wr.get(k_) == {w} for k_ in kinds))
    return n, w, known


def kind_wrappers(crate):
    """{Target kind: set of Node wrappers that have a variant of that kind} read from Node::as_target and the per-type classifiers"""
    key = (id(crate), "#kinds")
    if key in _ACC:
        return _ACC[key]
    out = {}
    try:
        at = crate.bodies.get("analyzer::ast::Node::as_target")
        if at is not None:
            for g, v in ret_table(at):
                vs = variant_of_guard(g)
                if not vs or len(vs) != 1:
                    out = {}
                    break
                wrapper = vs[0]
                if v[0] == "agg" and v[1] == "adt" and "::Target::" in v[2]:
                    out.setdefault(v[2].rsplit("::", 1)[-1], set()).add(wrapper)
                elif v[0] == "call" and v[1] in crate.bodies:
                    for _g2, v2 in ret_table(crate.bodies[v[1]]):
                        if v2[0] == "agg" and v2[1] == "adt" and "::Target::" in v2[2]:
                            out.setdefault(v2[2].rsplit("::", 1)[-1], set()).add(wrapper)
                        else:
                            raise ValueError("unclassified row")
                else:
                    out = {}
                    break
    except Exception:
        out = {}
    _ACC[key] = out
    return out


def _accessor_atom(body, a):
    """`is(node.expression(); Some)` is `is(node; Expression)`, and true for what a search for expression kinds returned"""
    if a[0] not in ("isin", "isnot") or len(a) < 3 or tuple(a[2]) != ("Some",) or (a[0] == "isnot" and len(a) > 3 and a[3]):
        return a
    if body.path.startswith("analyzer::ast::"):
        return a  # (the accessors and classifiers themselves)
    r = accessor_subject(body.crate, a[1])
    if r is None:
        return a
    n, w, known = r
    if known:
        return ("true", ("const", "bool", True)) if a[0] == "isin" else ("true", ("const", "bool", False))
    return (a[0], n, (w,)) if a[0] == "isin" else ("isnot", n, (w,), ())


def block_guard(body, bb, names=None):
    raw = core.block_guard_atoms(body, bb)
    if raw is None:
        return None
    raw = [[_accessor_atom(body, a) for a in conj] for conj in raw]
    for pbb in work_list_of_block(body, bb):
        # code that runs for an element of a work list runs under the condition under which the element was queued
        praw = core.block_guard_atoms(body, pbb)
        if praw is not None:
            raw = [list(c1) + list(c2) for c1 in raw for c2 in praw]
    raw = [[_rw_atom(body, a) for a in conj] for conj in raw]
    out = []
    for conj in raw:
        c = []
        dead = False
        for a in conj:
            na = norm_atom(a, names)
            if na[0] == "const":
                if not na[1]:
                    dead = True
                continue
            c.append(("" if na[0] else "!") + na[1])
        if not dead:
            out.append(sorted(set(c)))
    return simplify_dnf(out)


def _rw_atom(body, a):
    return tuple(through_lists(body, x) if isinstance(x, tuple) and x and isinstance(x[0], str) and not all(isinstance(y, str) for y in x) else x for x in a)


def simplify_dnf(out):
    """drop contradictory conjunctions (a && !a), duplicates and absorbed conjunctions; merge c&&a || c&&!a -> c"""
    cs = []
    for c in out:
        sc = set(c)
        if any(("!" + a) in sc for a in sc if not a.startswith("!")):
            continue
        if sc not in cs:
            cs.append(sc)
    changed = True
    while changed:
        changed = False
        for i in range(len(cs)):
            for j in range(len(cs)):
                if i != j and cs[i] is not None and cs[j] is not None:
                    a, b = cs[i], cs[j]
                    if a < b:
                        cs[j] = None
                        changed = True
                        continue
                    d1, d2 = a - b, b - a
                    if len(d1) == 1 and len(d2) == 1:
                        x, y = next(iter(d1)), next(iter(d2))
                        if x == "!" + y or y == "!" + x:
                            cs[i] = a & b
                            cs[j] = None
                            changed = True
        cs = [c for c in cs if c is not None]
        uniq = []
        for c in cs:
            if c not in uniq:
                uniq.append(c)
        cs = uniq
    return [sorted(c) for c in cs]


def guard_str(g):
    if g is None:
        return "<unreachable>"
    if g == [[]] or g == []:
        return "true" if g else "false"
    return " || ".join("(" + " && ".join(c) + ")" for c in g)


def dominating_atoms(g):
    """atoms present in every conjunction of the DNF"""
    if not g:
        return set()
    s = set(g[0])
    for c in g[1:]:
        s &= set(c)
    return s


# ------------------------------------------------------------------ call graph


def body_refs(body):
    """paths of closures / fn items mentioned as values in the body"""
    out = set()

    def walk(x):
        if isinstance(x, dict):
            if "closure" in x and x.get("ak") == "closure":
                out.add(x["closure"])
            if "fn" in x and isinstance(x["fn"], dict):
                out.add(x["fn"].get("resolved") or x["fn"]["path"])
                out.add(x["fn"]["path"])
            for v in x.values():
                walk(v)
        elif isinstance(x, list):
            for v in x:
                walk(v)

    for i in body.reach:
        walk(body.blocks[i])
    return out


def reachable_bodies(crate, roots):
    seen = {}
    st = [r for r in roots if r is not None]
    while st:
        b = st.pop()
        if b.path in seen:
            continue
        seen[b.path] = b
        for p in body_refs(b):
            t = crate.bodies.get(p)
            if t is not None and t.path not in seen:
                st.append(t)
    return seen


def find_bodies(crate, suffix):
    return [b for p, b in crate.bodies.items() if p == suffix or p.endswith("::" + suffix)]


def return_blocks(body):
    return [i for i in body.reach if body.blocks[i]["term"]["k"] == "return"]


def on_all_paths(body, bb, start=0):
    """every path from `start` to a return passes through bb"""
    if bb == start:
        return True
    seen = set()
    st = [start]
    while st:
        x = st.pop()
        if x in seen or x == bb:
            continue
        seen.add(x)
        if body.blocks[x]["term"]["k"] == "return":
            return False
        st.extend(t for (t, _) in body.succ[x])
    return True


def in_loop(body, bb):
    return bool(body.loops_of(bb))


def def_table(body, local, _seen=None):
    """leaf definitions of a local: [(bb, value term)], following plain copies/moves of multiply-defined locals"""
    _seen = _seen or set()
    if local in _seen:
        return []
    _seen = _seen | {local}
    out = []
    for (bb, si, pr, kind, payload) in body.defs.get(local, []):
        if pr:
            out.append((bb, ("unknown", "partial-assign")))
            continue
        if kind == "rv" and payload["k"] == "use" and payload["o"]["k"] in ("copy", "move") and not payload["o"]["p"]["pr"]:
            src = payload["o"]["p"]["l"]
            if len(body.defs.get(src, [])) > 1:
                out.extend(def_table(body, src, _seen))
                continue
        if kind == "rv":
            out.append((bb, body.val_rvalue(payload, (), (bb, si))))
        elif kind == "call":
            out.append((bb, body.val_call(payload, (), bb)))
        else:
            out.append((bb, ("unknown", kind)))
    return out


def ret_table(body, names=None):
    """[(guard DNF, value)] for the return place"""
    return [(block_guard(body, bb, names), v) for (bb, v) in def_table(body, 0)]


def variant_of_guard(g, subject="arg1"):
    """if the DNF is a single conjunction with exactly one atom `is(subject; V)` return [V...]"""
    if g is None or len(g) != 1:
        return None
    atoms = [a for a in g[0]]
    if len(atoms) != 1:
        return None
    a = atoms[0]
    pre = "is(%s; " % subject
    if a.startswith(pre) and a.endswith(")"):
        return a[len(pre):-1].split("|")
    return None
