"""Small helpers over value terms."""


def subterms(t):
    st = [t]
    while st:
        x = st.pop()
        if isinstance(x, tuple):
            if x and isinstance(x[0], str):
                yield x
            for y in x:
                if isinstance(y, tuple):
                    st.append(y)


def contains(t, sub):
    return any(x == sub for x in subterms(t))


def calls_in(t, name=None):
    out = []
    for x in subterms(t):
        if len(x) >= 3 and x[0] == "call" and isinstance(x[1], str):
            if name is None or x[1] == name or x[1].endswith("::" + name):
                out.append(x)
    return out


def is_call(t, name):
    return isinstance(t, tuple) and len(t) >= 3 and t[0] == "call" and (t[1] == name or t[1].endswith("::" + name))


def strip_unwrap(t):
    """x?  ->  x   (payload of Some/Ok)"""
    while t[0] == "proj":
        e = t[2]
        if e[0] == "f" and e[1] == 0 and t[1][0] == "proj" and t[1][2][0] == "dc" and t[1][2][1] in ("Some", "Ok"):
            t = t[1][1]
        else:
            break
    return t


def consts_in(t, kind=None):
    return [x for x in subterms(t) if x[0] == "const" and (kind is None or x[1] == kind)]


def field_of(t):
    """(base, index) of a field projection, ignoring field names"""
    if t[0] == "proj" and t[2][0] == "f":
        return (t[1], t[2][1])
    return None


def contains_outside(t, sub, barrier):
    """does `sub` occur in t other than inside a call to `barrier`"""
    st = [t]
    while st:
        x = st.pop()
        if not isinstance(x, tuple):
            continue
        if x == sub:
            return True
        bs = (barrier,) if isinstance(barrier, str) else tuple(barrier)
        if x and x[0] == "call" and isinstance(x[1], str) and any(x[1] == b or x[1].endswith("::" + b) for b in bs):
            continue
        st.extend(y for y in x if isinstance(y, tuple))
    return False
