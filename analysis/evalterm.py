"""Evaluation of extracted boolean/integer terms under an interpretation of selected sub-terms
(formulas *about the code* are evaluated on a finite grid; the code itself is not run)."""


class Unknown(Exception):
    pass


CMP = {"Lt": lambda a, b: a < b, "Le": lambda a, b: a <= b, "Gt": lambda a, b: a > b, "Ge": lambda a, b: a >= b,
       "Eq": lambda a, b: a == b, "Ne": lambda a, b: a != b}
ORD = {"std::cmp::PartialOrd::lt": "Lt", "std::cmp::PartialOrd::le": "Le", "std::cmp::PartialOrd::gt": "Gt", "std::cmp::PartialOrd::ge": "Ge"}
ARITH = {"Add": lambda a, b: a + b, "Sub": lambda a, b: a - b, "Mul": lambda a, b: a * b, "BitAnd": lambda a, b: a & b, "BitOr": lambda a, b: a | b}


def ev(t, interp):
    """interp(term) -> python value, or raises Unknown to let structural evaluation continue"""
    try:
        return interp(t)
    except Unknown:
        pass
    k = t[0]
    if k == "const":
        return t[2]
    if k == "un" and t[1] == "Not":
        return not ev(t[2], interp)
    if k == "bin":
        a, b = ev(t[2], interp), ev(t[3], interp)
        if t[1] in CMP:
            return CMP[t[1]](a, b)
        if t[1] in ARITH:
            return ARITH[t[1]](a, b)
        raise Unknown(t[1])
    if k == "call" and t[1] in ORD and len(t[2]) == 2:
        a, b = ev(t[2][0], interp), ev(t[2][1], interp)
        return CMP[ORD[t[1]]](a, b)
    if k == "agg" and t[1] == "tuple":
        return tuple(ev(x, interp) for x in t[3])
    if k == "proj" and t[2][0] == "f":
        base = ev(t[1], interp)
        if isinstance(base, tuple):
            return base[t[2][1]]
        raise Unknown("field")
    if k == "cast":
        return ev(t[1], interp)
    if k == "is":
        v = ev(t[1], interp)
        return (v is not None) if t[2] == "Some" else (v is None)
    raise Unknown(k)


def ev_atom(a, interp):
    """raw guard atom (core.switch_atom) -> bool"""
    k = a[0]
    if k == "true":
        return bool(ev(a[1], interp))
    if k == "false":
        return not bool(ev(a[1], interp))
    if k in ("isin", "isnot"):
        v = interp(("variant", a[1]))  # the interpretation must name the variant of this term
        if k == "isin":
            return v in a[2]
        return v not in a[2]
    raise Unknown(k)


def ev_dnf(raw, interp, default=None):
    """raw: list of conjunctions of raw atoms. Atoms the interpretation cannot decide take `default`
    (None -> propagate Unknown)."""
    res = False
    for conj in raw:
        ok = True
        for a in conj:
            try:
                v = ev_atom(a, interp)
            except Unknown:
                if default is None:
                    raise
                v = default
            if not v:
                ok = False
                break
        if ok:
            res = True
    return res
