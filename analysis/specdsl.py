"""Detector specs (DESIGN section 8, machine readable): a small DSL parsed into report paths and formulas over the
same canonical atom strings that summary.py renders from the code.

  detector <name>
    let <alias> = <path expression>
    report <path> when <formula>            # code must be equivalent to the formula
    report <path> must <formula> may <formula>   # must => code => may
    note <free text>

Path steps:  :V  downcast that implies `is(prefix; V)`      !V  downcast without implied guard (Node accessor)
             .f  field     ?  payload of Some (implies is(prefix; Some))     [*] element     [*k] another element of the same list (bound witness k)     [*<k] a witness earlier in the list than [*]     [k] index
Formula:     & | ! ( )   atoms:  P is V|W   P isnt V|W   P == "lit"   P == Q   len(P) >= n   name(args..)  (canonical predicate)
Implied guards of every path mentioned in an atom are conjoined with that atom.
"""
import re
import boolalg as B

STEP = re.compile(r"(:\{[A-Za-z0-9_|]+\}|:[A-Za-z0-9_]+|![A-Za-z0-9_]+|\.[A-Za-z0-9_]+|\?|~|\[\*<?[0-9]*\]|\[[0-9]+\]|\([^()]*\)\*)")


class SpecError(Exception):
    pass


class Detector:
    def __init__(self, name):
        self.name = name
        self.aliases = {}       # alias -> (canonical string, implied atoms list)
        self.reports = []       # (path string, must formula, may formula, line no)
        self.notes = []
        self.props = {}


def expand_path(text, aliases):
    """-> (canonical string, [implied atom strings])"""
    text = text.strip()
    m = re.match(r"^([A-Za-z_][A-Za-z0-9_]*)", text)
    implied = []
    if m and m.group(1) in aliases:
        base, implied0 = aliases[m.group(1)]
        implied = list(implied0)
        rest = text[m.end():]
        cur = base
    else:
        # a raw canonical prefix up to the first step character sequence is not supported: require an alias
        raise SpecError("path must start with an alias: %r" % text)
    pos = 0
    while pos < len(rest):
        mm = STEP.match(rest, pos)
        if not mm:
            raise SpecError("bad path step at %r in %r" % (rest[pos:], text))
        st = mm.group(1)
        if st.startswith(":{"):
            vs = sorted(st[2:-1].split("|"))
            implied.append(B.Or(*[B.atom("is(%s; %s)" % (cur, v)) for v in vs]))
            cur = "%s↓{%s}" % (cur, "|".join(vs))
        elif st.startswith(":"):
            implied.append(B.atom("is(%s; %s)" % (cur, st[1:])))
            cur = "%s↓%s" % (cur, st[1:])
        elif st.startswith("!"):
            cur = "%s↓%s" % (cur, st[1:])
        elif st == "?":
            implied.append(B.atom("is(%s; Some)" % cur))
            cur = cur + "?"
        elif st == "~":
            implied.append(B.atom("is(%s; Ok)" % cur))
            cur = cur + "?"
        elif re.match(r"\[\*<[0-9]+\]", st):
            cur = cur + "[*<#%s]" % st[3:-1]  # an element earlier in the list than the current one ([*])
        elif re.match(r"\[\*[0-9]+\]", st):
            cur = cur + "[*#%s]" % st[2:-1]
        elif st.startswith("("):
            alts = sorted(x.strip().replace(":", "↓") for x in st[1:-2].split("|"))
            cur = cur + "(%s)*" % "|".join(alts)
        else:
            cur = cur + st
        pos = mm.end()
    return cur, implied


class Parser:
    def __init__(self, text, aliases):
        self.s = text
        self.i = 0
        self.aliases = aliases

    def ws(self):
        while self.i < len(self.s) and self.s[self.i].isspace():
            self.i += 1

    def peek(self):
        self.ws()
        return self.s[self.i] if self.i < len(self.s) else ""

    def parse(self):
        f = self.p_or()
        self.ws()
        if self.i != len(self.s):
            raise SpecError("trailing input %r" % self.s[self.i:])
        return f

    def p_or(self):
        fs = [self.p_and()]
        while self.peek() == "|":
            self.i += 1
            fs.append(self.p_and())
        return B.Or(*fs)

    def p_and(self):
        fs = [self.p_not()]
        while self.peek() == "&":
            self.i += 1
            fs.append(self.p_not())
        return B.And(*fs)

    def p_not(self):
        c = self.peek()
        if c == "!":
            self.i += 1
            return B.Not(self.p_not())
        if c == "(":
            self.i += 1
            f = self.p_or()
            if self.peek() != ")":
                raise SpecError("missing ) at %r" % self.s[self.i:])
            self.i += 1
            return f
        return self.p_atom()

    def read_operand(self):
        """a path, a string literal, a number, or a canonical call name(args)"""
        self.ws()
        s = self.s
        if s[self.i] == '"':
            j = self.i + 1
            while s[j] != '"' or s[j - 1] == "\\":
                j += 1
            tok = s[self.i:j + 1]
            self.i = j + 1
            return ("lit", tok, [])
        m = re.match(r"(True|False)\b", s[self.i:])
        if m:
            self.i += m.end()
            return ("lit", m.group(0), [])
        m = re.match(r"'[^']'", s[self.i:])
        if m:
            self.i += m.end()
            return ("lit", m.group(0), [])
        m = re.match(r"-?[0-9]+", s[self.i:])
        if m:
            self.i += m.end()
            return ("lit", m.group(0), [])
        m = re.match(r"[A-Za-z_][A-Za-z0-9_:<>]*", s[self.i:])
        if not m:
            raise SpecError("operand expected at %r" % s[self.i:])
        name = m.group(0)
        j = self.i + m.end()
        if j < len(s) and s[j] == "(" and name.rstrip(":") not in self.aliases:
            # canonical call: name(arg, arg)
            self.i = j + 1
            args, implied = [], []
            while True:
                if self.peek() == ")":
                    self.i += 1
                    break
                k, txt, imp = self.read_operand()
                args.append(txt)
                implied += imp
                if self.peek() == ",":
                    self.i += 1
            txt = "%s(%s)" % (name, ", ".join(args))
            # steps after a call, e.g. str::parse(P)?
            mm = re.match(r"(?:%s)+" % STEP.pattern, s[self.i:])
            if mm:
                al = dict(self.aliases)
                al["__call"] = (txt, [])
                txt, imp2 = expand_path("__call" + mm.group(0), al)
                implied += imp2
                self.i += mm.end()
            return ("call", txt, implied)
        # a path: alias + steps
        mm = re.match(r"[A-Za-z_][A-Za-z0-9_]*(?:%s)*" % STEP.pattern, s[self.i:])
        txt, implied = expand_path(mm.group(0), self.aliases)
        self.i += mm.end()
        return ("path", txt, implied)

    def p_atom(self):
        k, a, imp = self.read_operand()
        self.ws()
        rest = self.s[self.i:]
        m = re.match(r"(isnt|is)\s+([A-Za-z0-9_|]+)", rest)
        if m:
            self.i += m.end()
            vs = m.group(2).split("|")
            # Option / Result: `is None` is written as `isnt Some` (the code side uses the same canonical variant)
            f = B.Or(*[(B.Not(B.atom("is(%s; %s)" % (a, {"None": "Some", "Err": "Ok"}[v]))) if v in ("None", "Err") else B.atom("is(%s; %s)" % (a, v))) for v in vs])
            if m.group(1) == "isnt":
                f = B.Not(f)
            return B.And(*(list(imp) + [f]))
        m = re.match(r"(==|!=|>=|<=|>|<)\s*", rest)
        if m:
            self.i += m.end()
            k2, b, imp2 = self.read_operand()
            op = m.group(1)
            neg = False
            name = {"==": "eq", "!=": "eq", ">=": "ge", ">": "gt", "<": "ge", "<=": "gt"}[op]
            if op in ("!=", "<", "<="):
                neg = True
            if name == "eq" and k != "lit" and k2 != "lit" and b < a:
                a, b = b, a
            f = B.atom("%s(%s, %s)" % (name, a, b))
            if neg:
                f = B.Not(f)
            return B.And(*(list(imp + imp2) + [f]))
        if k == "call":
            # total orders: lt / le are written as the negation of ge / gt (the code side is normalised the same way)
            if a.startswith("HashMap::contains_key(") and a.endswith(")"):
                return B.And(*(list(imp) + [B.atom("is(HashMap::get(" + a[len("HashMap::contains_key("):] + "; Some)")]))
            if a.startswith("PartialOrd::lt("):
                return B.And(*(list(imp) + [B.Not(B.atom("PartialOrd::ge(" + a[len("PartialOrd::lt("):]))]))
            if a.startswith("PartialOrd::le("):
                return B.And(*(list(imp) + [B.Not(B.atom("PartialOrd::gt(" + a[len("PartialOrd::le("):]))]))
            return B.And(*(list(imp) + [B.atom(a)]))
        if k == "path":
            # a bare path is a boolean-valued term (e.g. a bool field)
            return B.And(*(list(imp) + [B.atom(a)]))
        raise SpecError("atom expected at %r" % rest)


def parse_spec(text):
    dets = {}
    cur = None
    lines = text.split("\n")
    i = 0
    while i < len(lines):
        raw = lines[i]
        ln = i + 1
        i += 1
        line = raw.split("#", 1)[0].rstrip() if not raw.lstrip().startswith("note") else raw.rstrip()
        # continuation lines: trailing backslash
        while line.endswith("\\") and i < len(lines):
            line = line[:-1] + " " + lines[i].split("#", 1)[0].strip()
            i += 1
        if not line.strip():
            continue
        t = line.strip()
        if t.startswith("detector "):
            cur = Detector(t.split()[1])
            cur.aliases["file"] = ("Node::SourceUnit(arg1)", [])
            cur.aliases["unit"] = ("arg1", [])
            for k_ in range(1, 5):
                cur.aliases["arg%d" % k_] = ("arg%d" % k_, [])
            dets[cur.name] = cur
            continue
        if cur is None:
            raise SpecError("line %d: statement outside a detector" % ln)
        try:
            if t.startswith("let "):
                m = re.match(r"let\s+([A-Za-z_][A-Za-z0-9_]*)\s*=\s*(.*)$", t)
                name, rhs = m.group(1), m.group(2).strip()
                cur.aliases[name] = expand_alias_rhs(rhs, cur.aliases)
            elif t.startswith("report "):
                body = t[len("report "):]
                if " when " in body:
                    p, f = body.split(" when ", 1)
                    ps, imp = expand_alias_rhs(p.strip(), cur.aliases)
                    form = B.And(*(list(imp) + [Parser(f, cur.aliases).parse()]))
                    cur.reports.append((ps, form, form, ln))
                elif " must " in body and " may " in body:
                    p, rest = body.split(" must ", 1)
                    f1, f2 = rest.split(" may ", 1)
                    ps, imp = expand_alias_rhs(p.strip(), cur.aliases)
                    pre = list(imp)
                    cur.reports.append((ps, B.And(*(pre + [Parser(f1, cur.aliases).parse()])), B.And(*(pre + [Parser(f2, cur.aliases).parse()])), ln))
                else:
                    ps, imp = expand_alias_rhs(body.strip(), cur.aliases)
                    form = B.And(*list(imp))
                    cur.reports.append((ps, form, form, ln))
            elif t.startswith("note"):
                cur.notes.append(t[4:].strip())
            elif t.startswith("prop "):
                k, v = t[5:].split("=", 1)
                cur.props[k.strip()] = v.strip()
            else:
                raise SpecError("unknown statement")
        except SpecError as e:
            raise SpecError("line %d (%s): %s" % (ln, cur.name, e))
    return dets


def expand_alias_rhs(rhs, aliases):
    """alias right-hand sides: search{K|L}(ROOT) steps | Node::Kind(PATH) | PATH"""
    m = re.match(r"^search\{([A-Za-z0-9_|]+)\}\((.*)\)((?:%s)*)$" % STEP.pattern, rhs)
    if m:
        kinds = "|".join(sorted(m.group(1).split("|")))
        root, imp = expand_alias_rhs(m.group(2).strip(), aliases)
        al = dict(aliases)
        al["__s"] = ("search{%s}(%s)" % (kinds, root), imp)
        return expand_path("__s" + m.group(3), al)
    m = re.match(r"^tuple\((.*)\)$", rhs)
    if m:
        parts, depth, cur = [], 0, ""
        for ch in m.group(1):
            if ch in "({[":
                depth += 1
            if ch in ")}]":
                depth -= 1
            if ch == "," and depth == 0:
                parts.append(cur.strip())
                cur = ""
            else:
                cur += ch
        parts.append(cur.strip())
        outs, imps = [], []
        for p_ in parts:
            s2, i2 = expand_alias_rhs(p_, aliases)
            outs.append(s2)
            imps += i2
        return ("tuple(%s)" % ", ".join(outs), imps)
    m = re.match(r"^(Node::[A-Za-z]+)\((.*)\)$", rhs)
    if m:
        inner, imp = expand_alias_rhs(m.group(2).strip(), aliases)
        return ("%s(%s)" % (m.group(1), inner), imp)
    m = re.match(r"^([A-Za-z_][A-Za-z0-9_:<>]*)\((.*)\)((?:%s)*)$" % STEP.pattern, rhs)
    if m and m.group(1) not in aliases:
        # canonical call with path arguments
        args = []
        imp = []
        depth = 0
        cur = ""
        for ch in m.group(2):
            if ch in "({[":
                depth += 1
            if ch in ")}]":
                depth -= 1
            if ch == "," and depth == 0:
                args.append(cur.strip())
                cur = ""
            else:
                cur += ch
        if cur.strip():
            args.append(cur.strip())
        out = []
        for a in args:
            if re.match(r'^(".*"|-?[0-9]+|True|False)$', a):
                out.append(a)
            else:
                s2, i2 = expand_alias_rhs(a, aliases)
                out.append(s2)
                imp += i2
        al = dict(aliases)
        al["__c"] = ("%s(%s)" % (m.group(1), ", ".join(out)), imp)
        return expand_path("__c" + m.group(3), al)
    return expand_path(rhs, aliases)
