"""Pretty printer for the MIR facts (debug aid)."""
import json, sys

def pl(p):
    s = "_%d" % p["l"]
    for e in p["pr"]:
        if e == "deref": s = "(*%s)" % s
        elif isinstance(e, dict) and "f" in e: s = "%s.%d" % (s, e["f"]) + ("<%s>" % e["n"] if e.get("n") and not e["n"].isdigit() else "")
        elif isinstance(e, dict) and "dc" in e: s = "(%s as %s)" % (s, e["dc"])
        elif isinstance(e, dict) and "ix" in e: s = "%s[_%d]" % (s, e["ix"])
        else: s = "%s{%s}" % (s, json.dumps(e))
    return s

def op(o):
    k = o["k"]
    if k in ("copy", "move"): return ("move " if k == "move" else "") + pl(o["p"])
    if k == "const":
        if "fn" in o:
            f = o["fn"]; r = f.get("resolved")
            return "fn<%s%s>" % (f["path"], (" => " + r) if r and r != f["path"] else "")
        if "str" in o: return json.dumps(o["str"])
        if "int" in o: return "%d_%s" % (o["int"], o["ty"])
        return "const(%s)" % o["disp"]
    return json.dumps(o)

def rv(r):
    k = r["k"]
    if k == "use": return op(r["o"])
    if k == "ref": return ("&mut " if r["mut"] else "&") + pl(r["p"])
    if k == "cast": return "%s as %s [%s]" % (op(r["o"]), r["ty"], r["ck"])
    if k == "bin": return "%s(%s, %s)" % (r["op"], op(r["a"]), op(r["b"]))
    if k == "un": return "%s(%s)" % (r["op"], op(r["o"]))
    if k == "discr": return "discriminant(%s)" % pl(r["p"])
    if k == "agg":
        head = r["ak"]
        if head == "adt": head = "%s::%s" % (r["adt"], r["variant"])
        if head == "closure": head = "closure " + r["closure"]
        return "%s{%s}" % (head, ", ".join(op(o) for o in r["ops"]))
    return json.dumps(r)

def show(b, out=sys.stdout):
    w = out.write
    w("fn %s  [%s:%d]\n" % (b["path"], b["span"]["file"], b["span"]["line"]))
    for i, l in enumerate(b["locals"]):
        w("  let _%d: %s%s\n" % (i, l["ty"], ("  // " + l["name"]) if l["name"] else ""))
    for i, blk in enumerate(b["blocks"]):
        w(" bb%d%s:\n" % (i, " (cleanup)" if blk["cleanup"] else ""))
        for s in blk["stmts"]:
            if s["k"] == "assign":
                w("    %s = %s   @%d\n" % (pl(s["p"]), rv(s["rv"]), s["loc"]["line"]))
            else:
                w("    %s\n" % json.dumps(s)[:100])
        t = blk["term"]; k = t["k"]
        if k == "call":
            w("    %s = %s(%s) -> %s   @%d\n" % (pl(t["dest"]), op(t["f"]), ", ".join(op(a) for a in t["args"]), "bb%s" % t["t"] if t["t"] is not None else "!", blk["tloc"]["line"]))
        elif k == "switch":
            w("    switch %s [%s] else bb%d\n" % (op(t["d"]), ", ".join("%d->bb%d" % (v, bb) for v, bb in t["ts"]), t["else"]))
        elif k == "goto": w("    goto bb%d\n" % t["t"])
        elif k == "drop": w("    drop(%s) -> bb%d\n" % (pl(t["p"]), t["t"]))
        elif k == "assert": w("    assert(%s == %s, %s(%s)) -> bb%d\n" % (op(t["cond"]), t["expected"], t["msg"], ", ".join(op(a) for a in t["mops"]), t["t"]))
        else: w("    %s\n" % k)

if __name__ == "__main__":
    d = json.load(open(sys.argv[1]))
    for b in d["bodies"]:
        if any(b["path"].endswith(x) for x in sys.argv[2:]):
            show(b)
